// Package simio is the simulated storage medium and its stream ends. A Medium holds named byte
// strings ("files"); Writers and Readers deliver them under a fault plan. Benign behaviours
// (chunking, (n>0, io.EOF), (0, nil), with or without io.ByteReader) must be invisible to a
// correct codec; hard faults (failing reads/writes, crashes that keep only a prefix) may make an
// operation fail but must never make it lie; stored-byte faults damage the bytes at rest.
package simio

import (
	"errors"
	"fmt"
	"io"
)

var (
	ErrIO    = errors.New("simio: input/output error (EIO)")
	ErrNoSpc = errors.New("simio: no space left on device (ENOSPC)")
	ErrCrash = errors.New("simio: medium crashed; only the prefix written so far is durable")
)

// ---- writer ---------------------------------------------------------------------------------

// WritePlan describes the faults of one Writer.
type WritePlan struct {
	FailCall  int   // fail the k-th Write call (0-based); -1: never
	Transient bool  // only that call fails; later calls succeed again
	Short     bool  // the failing call writes a strict prefix of its buffer before failing
	Err       error // error returned by the failing call
	CrashAt   int   // crash after this many bytes in total (-1: never): later writes fail, prefix stays
}

func NoWriteFaults() WritePlan { return WritePlan{FailCall: -1, CrashAt: -1} }

// Writer is the write end of a medium file.
type Writer struct {
	Plan     WritePlan
	Data     []byte
	Calls    int
	Failed   int // number of calls that returned an error
	crashed  bool
	Sizes    []int // size of every Write call, for the evidence
	KeepSize bool
}

func (w *Writer) Write(p []byte) (int, error) {
	call := w.Calls
	w.Calls++
	if w.KeepSize {
		w.Sizes = append(w.Sizes, len(p))
	}
	if w.crashed {
		w.Failed++
		return 0, ErrCrash
	}
	if w.Plan.CrashAt >= 0 && len(w.Data)+len(p) > w.Plan.CrashAt {
		n := w.Plan.CrashAt - len(w.Data)
		if n < 0 {
			n = 0
		}
		w.Data = append(w.Data, p[:n]...)
		w.crashed = true
		w.Failed++
		return n, ErrCrash
	}
	if w.Plan.FailCall >= 0 && (call == w.Plan.FailCall || (!w.Plan.Transient && call > w.Plan.FailCall)) {
		n := 0
		if w.Plan.Short && len(p) > 1 {
			n = len(p) / 2
			w.Data = append(w.Data, p[:n]...)
		}
		w.Failed++
		err := w.Plan.Err
		if err == nil {
			err = ErrIO
		}
		return n, err
	}
	w.Data = append(w.Data, p...)
	return len(p), nil
}

// ---- reader ---------------------------------------------------------------------------------

// ReadPlan describes the behaviour of one Reader.
type ReadPlan struct {
	Chunks      []int // sizes of successive reads (cycled); empty: as much as asked
	EOFWithData bool  // deliver the last bytes together with io.EOF
	ZeroEvery   int   // every n-th Read returns (0, nil) first (0: never)
	FailAt      int   // a Read that would cross this stream offset fails (-1: never)
	Transient   bool  // only the first such Read fails
	Err         error
}

func NoReadFaults() ReadPlan { return ReadPlan{FailAt: -1} }

// Reader implements io.Reader only (the codec has to interpose its own buffering).
type Reader struct {
	Plan    ReadPlan
	Data    []byte
	Pos     int
	Calls   int
	Failed  int
	tripped bool
	ci      int
}

func (r *Reader) Read(p []byte) (int, error) {
	r.Calls++
	if len(p) == 0 {
		return 0, nil
	}
	if r.Plan.ZeroEvery > 0 && r.Calls%r.Plan.ZeroEvery == 0 {
		return 0, nil
	}
	if r.Pos >= len(r.Data) {
		return 0, io.EOF
	}
	n := len(p)
	if len(r.Plan.Chunks) > 0 {
		c := r.Plan.Chunks[r.ci%len(r.Plan.Chunks)]
		r.ci++
		if c < 1 {
			c = 1
		}
		if c < n {
			n = c
		}
	}
	if n > len(r.Data)-r.Pos {
		n = len(r.Data) - r.Pos
	}
	if r.Plan.FailAt >= 0 && r.Pos+n > r.Plan.FailAt && (!r.Plan.Transient || !r.tripped) {
		// deliver the bytes before the bad offset, then fail
		k := r.Plan.FailAt - r.Pos
		if k < 0 {
			k = 0
		}
		r.tripped = true
		r.Failed++
		copy(p, r.Data[r.Pos:r.Pos+k])
		r.Pos += k
		err := r.Plan.Err
		if err == nil {
			err = ErrIO
		}
		if r.Plan.Transient {
			r.Plan.FailAt = -1
		}
		return k, err
	}
	copy(p, r.Data[r.Pos:r.Pos+n])
	r.Pos += n
	if r.Pos == len(r.Data) && r.Plan.EOFWithData {
		return n, io.EOF
	}
	return n, nil
}

// ByteReader additionally implements io.ByteReader, so the codec reads it directly.
type ByteReader struct{ Reader }

func (r *ByteReader) ReadByte() (byte, error) {
	var b [1]byte
	for {
		n, err := r.Reader.Read(b[:])
		if n == 1 {
			return b[0], nil
		}
		if err != nil {
			return 0, err
		}
	}
}

// FileReader is shaped like *os.File: io.Reader, io.Seeker and io.ReaderAt, but no io.ByteReader
// (so the codec interposes bufio and may be tempted to seek back what it buffered).
type FileReader struct {
	Reader
	Seeks int
}

func (r *FileReader) Seek(off int64, whence int) (int64, error) {
	r.Seeks++
	var base int64
	switch whence {
	case io.SeekStart:
		base = 0
	case io.SeekCurrent:
		base = int64(r.Pos)
	case io.SeekEnd:
		base = int64(len(r.Data))
	default:
		return 0, errors.New("simio: bad whence")
	}
	n := base + off
	if n < 0 {
		return 0, errors.New("simio: negative position")
	}
	if n > int64(len(r.Data)) {
		n = int64(len(r.Data))
	}
	r.Pos = int(n)
	return n, nil
}

func (r *FileReader) ReadAt(p []byte, off int64) (int, error) {
	if off >= int64(len(r.Data)) {
		return 0, io.EOF
	}
	n := copy(p, r.Data[off:])
	if n < len(p) {
		return n, io.EOF
	}
	return n, nil
}

// Shapes of readers.
const (
	ShapeByteReader = iota // io.Reader + io.ByteReader (like bufio.Reader, bytes.Buffer)
	ShapePlain             // io.Reader only (like a network connection)
	ShapeFile              // io.Reader + io.Seeker + io.ReaderAt (like *os.File)
	NumShapes
)

// NewShapedReader returns a reader of the given shape over data.
func NewShapedReader(data []byte, plan ReadPlan, shape int) io.Reader {
	switch shape {
	case ShapeByteReader:
		return &ByteReader{Reader{Plan: plan, Data: data}}
	case ShapeFile:
		return &FileReader{Reader: Reader{Plan: plan, Data: data}}
	}
	return &Reader{Plan: plan, Data: data}
}

// NewReader returns a reader of the requested shape over data.
func NewReader(data []byte, plan ReadPlan, byteReader bool) io.Reader {
	if byteReader {
		return &ByteReader{Reader{Plan: plan, Data: data}}
	}
	return &Reader{Plan: plan, Data: data}
}

// ---- stored-byte faults ---------------------------------------------------------------------

// Fault is one stored-byte fault.
type Fault struct {
	Kind string // truncate | flip | overwrite | forge32 | forge64 | forgevarint | garbage-tail | dup-tail
	Off  int
	Arg  uint64
}

func (f Fault) String() string { return fmt.Sprintf("%s@%d:%#x", f.Kind, f.Off, f.Arg) }

// Extreme count values: beyond any documented limit, without copying the limits.
var Forge32 = []uint32{1<<31 - 1, 1<<32 - 1}
var Forge64 = []uint64{1<<31 - 1, 1<<32 - 1, 1 << 40, 1<<63 - 1, 1 << 63, 1<<64 - 1,
	0x7FF0000000000000, 0xFFF0000000000000} // the last two: +Inf and -Inf when the window is a float64
var ForgeVarint = []uint64{1<<31 - 1, 1<<32 - 1, 1 << 40, 1 << 63, 1<<64 - 1}

func putUvarint(x uint64) []byte {
	var b []byte
	for x >= 0x80 {
		b = append(b, byte(x)|0x80)
		x >>= 7
	}
	return append(b, byte(x))
}

// Apply returns a damaged copy of data.
func Apply(data []byte, f Fault) []byte {
	switch f.Kind {
	case "truncate":
		n := f.Off
		if n > len(data) {
			n = len(data)
		}
		return append([]byte(nil), data[:n]...)
	case "flip":
		out := append([]byte(nil), data...)
		if f.Off < len(out) {
			out[f.Off] ^= 1 << (f.Arg & 7)
		}
		return out
	case "overwrite":
		out := append([]byte(nil), data...)
		if f.Off < len(out) {
			out[f.Off] = byte(f.Arg)
		}
		return out
	case "forge32":
		out := append([]byte(nil), data...)
		for i := 0; i < 4 && f.Off+i < len(out); i++ {
			out[f.Off+i] = byte(f.Arg >> (8 * i))
		}
		return out
	case "forge64":
		out := append([]byte(nil), data...)
		for i := 0; i < 8 && f.Off+i < len(out); i++ {
			out[f.Off+i] = byte(f.Arg >> (8 * i))
		}
		return out
	case "forgevarint":
		// replace the single byte at Off by the varint of Arg (the stream grows)
		v := putUvarint(f.Arg)
		out := append([]byte(nil), data[:f.Off]...)
		out = append(out, v...)
		if f.Off+1 <= len(data) {
			out = append(out, data[f.Off+1:]...)
		}
		return out
	case "stride8":
		// overwrite every 8th byte starting at phase Off with one value: when the phase is the top
		// byte of a run of little-endian float64s this makes every coordinate tiny or huge (but
		// finite) at once, without the harness knowing where the floats are
		out := append([]byte(nil), data...)
		for i := f.Off; i < len(out); i += 8 {
			out[i] = byte(f.Arg)
		}
		return out
	case "garbage-tail":
		out := append([]byte(nil), data...)
		x := f.Arg | 1
		for i := 0; i < int(f.Off); i++ {
			x ^= x << 13
			x ^= x >> 7
			x ^= x << 17
			out = append(out, byte(x))
		}
		return out
	case "dup-tail":
		out := append([]byte(nil), data...)
		if f.Off < len(data) {
			out = append(out, data[f.Off:]...)
		}
		return out
	}
	return append([]byte(nil), data...)
}
