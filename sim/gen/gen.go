// Package gen draws geometry from the choice tape. It produces *descriptions* (plain vertex
// lists); Build turns a description into fresh s2 objects, so a run can make as many
// independent clones of the same world as its oracle needs.
package gen

import (
	"math"

	"github.com/golang/geo/r3"
	"github.com/golang/geo/s1"
	"github.com/golang/geo/s2"

	"verifsim/core"
)

// Shape kinds.
const (
	KLoop = iota
	KPolygon
	KPolyline
	KPoints
	KLaxPolygon
	KLaxPolyline
	KLaxLoop
	KEdgeVector
	NumKinds
)

const (
	SpNormal = 0
	SpEmpty  = 1
	SpFull   = 2
)

var kindNames = [...]string{"loop", "polygon", "polyline", "points", "laxpolygon", "laxpolyline", "laxloop", "edgevector"}

func KindName(k int) string { return kindNames[k] }

// ShapeDesc is a recipe for one shape.
type ShapeDesc struct {
	Kind    int
	Special int
	Loops   [][]s2.Point // loop / polygon / lax polygon: CCW loops (shell, hole, island...)
	Depth   []int        // polygon: nesting depth of each loop
	Pts     []s2.Point   // polyline / points / edge vector (pairs)
}

func (d *ShapeDesc) NumVertices() int {
	n := len(d.Pts)
	for _, l := range d.Loops {
		n += len(l)
	}
	return n
}

func clonePts(p []s2.Point) []s2.Point {
	out := make([]s2.Point, len(p))
	copy(out, p)
	return out
}

// BuildLoop makes a fresh *s2.Loop.
func (d *ShapeDesc) BuildLoop() *s2.Loop {
	switch d.Special {
	case SpEmpty:
		return s2.EmptyLoop()
	case SpFull:
		return s2.FullLoop()
	}
	return s2.LoopFromPoints(clonePts(d.Loops[0]))
}

// BuildPolygon makes a fresh *s2.Polygon.
func (d *ShapeDesc) BuildPolygon() *s2.Polygon {
	switch d.Special {
	case SpEmpty:
		return s2.PolygonFromLoops(nil)
	case SpFull:
		return s2.FullPolygon()
	}
	loops := make([]*s2.Loop, len(d.Loops))
	for i, l := range d.Loops {
		loops[i] = s2.LoopFromPoints(clonePts(l))
	}
	return s2.PolygonFromLoops(loops)
}

// BuildShape makes a fresh s2.Shape of the described kind.
func (d *ShapeDesc) BuildShape() s2.Shape {
	switch d.Kind {
	case KLoop:
		return d.BuildLoop()
	case KPolygon:
		return d.BuildPolygon()
	case KPolyline:
		p := s2.Polyline(clonePts(d.Pts))
		return &p
	case KPoints:
		pv := s2.PointVector(clonePts(d.Pts))
		return &pv
	case KLaxPolygon:
		loops := make([][]s2.Point, len(d.Loops))
		for i, l := range d.Loops {
			loops[i] = clonePts(l)
			if i < len(d.Depth) && d.Depth[i]%2 == 1 { // holes are clockwise in a lax polygon
				for a, b := 0, len(loops[i])-1; a < b; a, b = a+1, b-1 {
					loops[i][a], loops[i][b] = loops[i][b], loops[i][a]
				}
			}
		}
		return s2.LaxPolygonFromPoints(loops)
	case KLaxPolyline:
		return s2.LaxPolylineFromPoints(clonePts(d.Pts))
	case KLaxLoop:
		return s2.LaxLoopFromPoints(clonePts(d.Loops[0]))
	case KEdgeVector:
		return edgeVectorFromPts(d.Pts)
	}
	panic("bad kind")
}

// G draws from the process tape.
type G struct {
	T     *core.Tape
	Small bool // keep drawn codec values small (complete fault enumeration needs short encodings)
	// NoCells: draw geometry with plain arithmetic only (no cell-id functions, no snapping, no
	// validation): used for cold-process runs, where nothing but object construction may touch the
	// library before the concurrent burst
	NoCells bool
	// Anchor: when set, loops and polygons are drawn near this point with sizes comparable to
	// AnchorRadius, so that objects of one world overlap, nest and cross (relations that are
	// not trivially false)
	Anchor       *s2.Point
	AnchorRadius float64 // planar (gnomonic) radius
}

// place draws the centre and maximal planar radius of a new loop/shell.
func (g *G) place(maxDeg float64) (s2.Point, float64) {
	t := g.T
	if g.Anchor != nil {
		c := g.PointNear(*g.Anchor, s1.Angle(math.Atan(g.AnchorRadius)))
		r := g.AnchorRadius * (0.15 + 1.6*t.Float())
		if lim := math.Tan(maxDeg * math.Pi / 180); r > lim {
			r = lim
		}
		return c, r
	}
	return g.Point(), math.Tan((0.2 + maxDeg*t.Float()) * math.Pi / 180)
}

func New() *G { return &G{T: &core.T} }

// Point draws a point: 0 = a fixed simple point; otherwise uniform-ish on the sphere, sometimes
// snapped to a cell centre/vertex or placed on a face boundary.
func (g *G) Point() s2.Point {
	t := g.T
	mode := t.Uint(8)
	if g.NoCells && (mode == 5 || mode == 6) {
		mode = 0
	}
	z := 2*t.Float() - 1
	phi := 2 * math.Pi * t.Float()
	r := math.Sqrt(math.Max(0, 1-z*z))
	p := s2.Point{Vector: r3.Vector{X: r * math.Cos(phi), Y: r * math.Sin(phi), Z: z}.Normalize()}
	switch mode {
	case 5:
		lvl := int(t.Uint(31))
		return s2.CellFromPoint(p).ID().Parent(lvl).Point()
	case 6:
		lvl := int(t.Uint(31))
		return s2.CellFromCellID(s2.CellFromPoint(p).ID().Parent(lvl)).Vertex(int(t.Uint(4)))
	case 7:
		// on a cube face boundary: |x| == |y| etc.
		v := p.Vector
		switch t.Uint(3) {
		case 0:
			v.Y = v.X
		case 1:
			v.Z = v.X
		default:
			v.Z = v.Y
		}
		if v.Norm2() == 0 {
			return p
		}
		return s2.Point{Vector: v.Normalize()}
	}
	return p
}

// PointNear draws a point within about radius of c (gnomonic disc).
func (g *G) PointNear(c s2.Point, radius s1.Angle) s2.Point {
	t := g.T
	rho := math.Tan(float64(radius)) * math.Sqrt(t.Float())
	phi := 2 * math.Pi * t.Float()
	return planar(c, rho, phi)
}

func frame(c s2.Point) (x, y s2.Point) {
	x = s2.Point{Vector: c.Vector.Ortho()}
	y = s2.Point{Vector: c.Vector.Cross(x.Vector).Normalize()}
	return
}

// planar returns the point whose gnomonic image about c is rho*(cos phi, sin phi).
func planar(c s2.Point, rho, phi float64) s2.Point {
	x, y := frame(c)
	v := c.Vector.Add(x.Vector.Mul(rho * math.Cos(phi))).Add(y.Vector.Mul(rho * math.Sin(phi)))
	return s2.Point{Vector: v.Normalize()}
}

// starLoop draws a loop that is star-shaped about c in the gnomonic plane: planar radii in
// [rmin,rmax], n vertices at increasing angles, counter-clockwise. Always a simple loop.
func (g *G) starLoop(c s2.Point, n int, rmin, rmax float64, jitter bool) []s2.Point {
	t := g.T
	pts := make([]s2.Point, n)
	ph0 := 2 * math.Pi * t.Float()
	for i := 0; i < n; i++ {
		rho := rmin
		if jitter {
			rho = rmin + (rmax-rmin)*t.Float()
		} else {
			rho = rmax
		}
		phi := ph0 + 2*math.Pi*float64(i)/float64(n)
		pts[i] = planar(c, rho, phi)
	}
	return pts
}

// Sizes: the vertex-count classes that matter to the code (brute-force threshold 32, bound-encoded
// threshold 64) plus larger ones. 0 is the simplest.
func (g *G) vertexCount(max int) int {
	t := g.T
	var n int
	switch t.Uint(8) {
	case 0:
		n = 4
	case 1:
		n = 3
	case 2:
		n = 5 + int(t.Uint(26)) // <= 30: brute force in ContainsPoint
	case 3:
		n = 31 + int(t.Uint(4)) // around the 32 threshold
	case 4:
		n = 33 + int(t.Uint(31)) // index path, below 64
	case 5:
		n = 63 + int(t.Uint(4))
	case 6:
		n = 65 + int(t.Uint(60))
	default:
		n = 100 + int(t.Uint(200))
	}
	if n > max {
		n = max
	}
	if n < 3 {
		n = 3
	}
	return n
}

// LoopDesc draws a single simple loop.
func (g *G) LoopDesc(maxV int) ShapeDesc {
	t := g.T
	if t.Chance(30) {
		sp := SpEmpty
		if t.Chance(500) {
			sp = SpFull
		}
		return ShapeDesc{Kind: KLoop, Special: sp}
	}
	c, rmax := g.place(40)
	n := g.vertexCount(maxV)
	jit := t.Chance(600)
	pts := g.starLoop(c, n, rmax*0.5, rmax, jit)
	pts = g.maybeSnap(pts)
	return ShapeDesc{Kind: KLoop, Loops: [][]s2.Point{pts}}
}

// maybeSnap snaps every vertex to a cell centre of one drawn level when that keeps the loop valid.
func (g *G) maybeSnap(pts []s2.Point) []s2.Point {
	t := g.T
	if !t.Chance(250) || g.NoCells {
		return pts
	}
	lvl := 8 + int(t.Uint(23))
	out := make([]s2.Point, len(pts))
	for i, p := range pts {
		out[i] = s2.CellFromPoint(p).ID().Parent(lvl).Point()
	}
	if validLoop(out) {
		return out
	}
	return pts
}

func validLoop(pts []s2.Point) bool {
	if len(pts) < 3 {
		return false
	}
	for i := range pts {
		if pts[i] == pts[(i+1)%len(pts)] {
			return false
		}
	}
	l := s2.LoopFromPoints(clonePts(pts))
	return l.Validate() == nil
}

// PolygonDesc draws a polygon: 1..maxShells disjoint shells, each optionally with a hole and an
// island inside the hole. All loops CCW.
func (g *G) PolygonDesc(maxV int) ShapeDesc {
	t := g.T
	if t.Chance(30) {
		sp := SpEmpty
		if t.Chance(500) {
			sp = SpFull
		}
		return ShapeDesc{Kind: KPolygon, Special: sp}
	}
	nshell := 1 + int(t.Uint(3))
	many := false
	if t.Chance(120) && maxV >= 60 {
		// many small shells: more than 12 loops switches Polygon to its cumulative-edge lookup tables
		nshell = 13 + int(t.Uint(8))
		many = true
	}
	base, anchoredR := g.place(24)
	bx, by := frame(base)
	var loops [][]s2.Point
	var depth []int
	budget := maxV
	if many {
		budget = 4 * nshell * 3
	}
	for sIdx := 0; sIdx < nshell && budget >= 3; sIdx++ {
		// shells on three mutually orthogonal axes, each within 25 degrees: disjoint.
		c := base
		if sIdx == 1 {
			c = bx
		} else if sIdx == 2 {
			c = by
		}
		rmax := math.Tan((1 + 24*t.Float()) * math.Pi / 180)
		if g.Anchor != nil && sIdx == 0 {
			rmax = anchoredR
		}
		if many {
			// a ring of small shells 25 degrees out from base, 360/nshell degrees apart
			c = planar(base, math.Tan(25*math.Pi/180), 2*math.Pi*float64(sIdx)/float64(nshell))
			rmax = math.Tan((0.2 + 1.5*t.Float()) * math.Pi / 180)
		}
		n := g.vertexCount(budget)
		if many {
			n = 3 + int(t.Uint(4))
		}
		shell := g.starLoop(c, n, rmax*0.6, rmax, t.Chance(500))
		loops = append(loops, shell)
		depth = append(depth, 0)
		budget -= n
		if many {
			continue
		}
		inner := rmax * 0.6 * math.Cos(math.Pi/float64(n)) * 0.9
		if budget >= 3 && t.Chance(450) {
			nh := g.vertexCount(budget)
			hole := g.starLoop(c, nh, inner*0.6, inner, t.Chance(500))
			loops = append(loops, hole)
			depth = append(depth, 1)
			budget -= nh
			inner2 := inner * 0.6 * math.Cos(math.Pi/float64(nh)) * 0.9
			if budget >= 3 && t.Chance(300) {
				ni := g.vertexCount(budget)
				loops = append(loops, g.starLoop(c, ni, inner2*0.5, inner2, t.Chance(500)))
				depth = append(depth, 2)
				budget -= ni
			}
		}
	}
	if t.Chance(200) && !g.NoCells {
		lvl := 10 + int(t.Uint(21))
		snapped := make([][]s2.Point, len(loops))
		ok := true
		for i, l := range loops {
			snapped[i] = make([]s2.Point, len(l))
			for j, p := range l {
				snapped[i][j] = s2.CellFromPoint(p).ID().Parent(lvl).Point()
			}
			if !validLoop(snapped[i]) {
				ok = false
			}
		}
		if ok {
			loops = snapped
		}
	}
	return ShapeDesc{Kind: KPolygon, Loops: loops, Depth: depth}
}

// PolylineDesc draws a polyline that wanders from a start point.
func (g *G) PolylineDesc(maxV int) ShapeDesc {
	t := g.T
	n := 2 + int(t.Uint(uint32(imin(maxV, 40))))
	if t.Chance(50) {
		n = int(t.Uint(2)) // 0 or 1 vertices: degenerate
	}
	pts := make([]s2.Point, 0, n)
	if n > 0 {
		p := g.Point()
		step := s1.Angle((0.05 + 5*t.Float()) * math.Pi / 180)
		for i := 0; i < n; i++ {
			pts = append(pts, p)
			q := g.PointNear(p, step)
			if q == p {
				q = g.Point()
			}
			p = q
		}
	}
	return ShapeDesc{Kind: KPolyline, Pts: pts}
}

func (g *G) PointsDesc() ShapeDesc {
	t := g.T
	n := int(t.Uint(8))
	pts := make([]s2.Point, n)
	for i := range pts {
		pts[i] = g.Point()
	}
	return ShapeDesc{Kind: KPoints, Pts: pts}
}

// ShapeDesc draws a shape of any kind for a bare ShapeIndex.
func (g *G) AnyShapeDesc(maxV int) ShapeDesc {
	t := g.T
	switch t.Uint(10) {
	case 0, 1, 2:
		d := g.LoopDesc(maxV)
		return d
	case 3, 4, 5:
		return g.PolygonDesc(maxV)
	case 6:
		return g.PolylineDesc(maxV)
	case 7:
		return g.PointsDesc()
	case 8:
		d := g.PolygonDesc(maxV)
		if d.Special != SpNormal {
			d = ShapeDesc{Kind: KPolygon, Loops: [][]s2.Point{g.starLoop(g.Point(), 4, 0.05, 0.1, false)}, Depth: []int{0}}
		}
		d.Kind = KLaxPolygon
		return d
	default:
		d := g.PolylineDesc(maxV)
		d.Kind = KLaxPolyline
		return d
	}
}

// Cell draws a cell: level 0 face cell is the simplest.
func (g *G) Cell() s2.Cell {
	t := g.T
	lvl := int(t.Uint(31))
	return s2.CellFromCellID(s2.CellFromPoint(g.Point()).ID().Parent(lvl))
}

// CellNear draws a cell containing a point near c, with levels concentrated where loops of the
// given angular size have their index cells.
func (g *G) CellNear(c s2.Point, radius s1.Angle) s2.Cell {
	t := g.T
	p := g.PointNear(c, radius)
	lvl := int(t.Uint(20))
	return s2.CellFromCellID(s2.CellFromPoint(p).ID().Parent(lvl))
}

func imin(a, b int) int {
	if a < b {
		return a
	}
	return b
}

func edgeVectorFromPts(pts []s2.Point) s2.Shape {
	// EdgeVectorShape is not exported with a constructor taking many edges in every version;
	// fall back to a polyline of the points.
	p := s2.Polyline(clonePts(pts))
	return &p
}

// ---- values steered at the codecs (C09/C15) --------------------------------------------------

// snapMode: how the vertices of a drawn loop relate to cell centres.
const (
	SnapNone      = 0 // arbitrary points
	SnapOne       = 1 // all vertices are centres of cells of one level
	SnapMixed     = 2 // every vertex is a cell centre, levels vary per vertex
	SnapPartial   = 3 // most vertices at one level, some arbitrary (off-centre list)
	SnapMostly    = 4 // most at one level, a few at another level
	SnapCorner    = 5 // vertices are cell corners (lattice points of (si,ti) that are the centre of no cell)
	SnapCornerMix = 6 // mostly cell centres of one level, some cell corners
	NumSnapModes  = 7
)

func (g *G) capV(n int) int {
	if g.Small && n > 20 {
		return 20
	}
	return n
}

func (g *G) snapPts(pts []s2.Point, mode int) []s2.Point {
	t := g.T
	if mode == SnapNone {
		return pts
	}
	lvl := int(t.Uint(31))
	if t.Chance(700) {
		lvl = 12 + int(t.Uint(19)) // fine levels keep loops valid
	}
	if t.Chance(250) {
		lvl = 8 * (1 + int(t.Uint(3))) // 8, 16, 24: the first point of a compressed loop is stored in whole bytes
	}
	out := make([]s2.Point, len(pts))
	for i, p := range pts {
		l := lvl
		switch mode {
		case SnapCorner:
			out[i] = s2.CellFromCellID(s2.CellFromPoint(p).ID().Parent(l)).Vertex(int(t.Uint(4)))
			continue
		case SnapCornerMix:
			if t.Chance(250) {
				out[i] = s2.CellFromCellID(s2.CellFromPoint(p).ID().Parent(l)).Vertex(int(t.Uint(4)))
				continue
			}
		case SnapMixed:
			l = 10 + int(t.Uint(21))
		case SnapPartial:
			if t.Chance(250) {
				out[i] = p
				continue
			}
		case SnapMostly:
			if t.Chance(200) {
				l = 10 + int(t.Uint(21))
			}
		}
		out[i] = s2.CellFromPoint(p).ID().Parent(l).Point()
	}
	if validLoop(out) {
		return out
	}
	// retry at the finest level, which moves vertices by nanometres only
	for i, p := range pts {
		out[i] = s2.CellFromPoint(p).ID().Parent(30).Point()
	}
	if validLoop(out) {
		return out
	}
	return pts
}

// codecCenter draws a loop centre: anywhere, or hugging a cube face edge / corner so that
// consecutive vertices change face and (si,ti) reach their extremes.
func (g *G) codecCenter() s2.Point {
	t := g.T
	switch t.Uint(4) {
	case 0:
		return g.Point()
	case 1:
		// near a cube edge
		f := int(t.Uint(6))
		c := s2.CellFromCellID(s2.CellIDFromFace(f))
		a, b := c.Vertex(int(t.Uint(4))), c.Vertex(int(t.Uint(4)))
		if a == b {
			return a
		}
		return s2.Point{Vector: a.Vector.Add(b.Vector).Normalize()}
	case 2:
		// a cube corner
		f := int(t.Uint(6))
		return s2.CellFromCellID(s2.CellIDFromFace(f)).Vertex(int(t.Uint(4)))
	}
	return s2.CellFromCellID(s2.CellIDFromFace(int(t.Uint(6)))).Center()
}

// CodecLoopDesc draws a loop for the codec engines.
func (g *G) CodecLoopDesc() ShapeDesc {
	t := g.T
	if t.Chance(60) {
		sp := SpEmpty
		if t.Chance(500) {
			sp = SpFull
		}
		return ShapeDesc{Kind: KLoop, Special: sp}
	}
	c := g.codecCenter()
	n := g.vertexCount(g.capV(150))
	rmax := math.Tan((0.001 + 35*t.Float()*t.Float()) * math.Pi / 180)
	pts := g.starLoop(c, n, rmax*0.5, rmax, t.Chance(600))
	pts = g.snapPts(pts, int(t.Uint(NumSnapModes)))
	if t.Chance(200) {
		// reversed orientation: the loop contains the origin side (originInside flag)
		for a, b := 0, len(pts)-1; a < b; a, b = a+1, b-1 {
			pts[a], pts[b] = pts[b], pts[a]
		}
	}
	return ShapeDesc{Kind: KLoop, Loops: [][]s2.Point{pts}}
}

// CodecPolygonDesc draws a polygon for the codec engines: 0..many loops with holes, snapped in
// one of the five ways, anywhere on the cube.
func (g *G) CodecPolygonDesc() ShapeDesc {
	t := g.T
	if t.Chance(60) {
		sp := SpEmpty
		if t.Chance(500) {
			sp = SpFull
		}
		return ShapeDesc{Kind: KPolygon, Special: sp}
	}
	mode := int(t.Uint(NumSnapModes))
	if t.Chance(80) {
		return g.edgeStartPolygon()
	}
	if t.Chance(60) {
		return g.coarseCentrePolygon()
	}
	nshell := 1 + int(t.Uint(3))
	if t.Chance(100) {
		nshell = 4 + int(t.Uint(10)) // many small shells: exercises the cumulative edge table (>12 loops)
		if g.Small {
			nshell = 4
		}
	}
	base := g.codecCenter()
	bx, by := frame(base)
	var loops, raw [][]s2.Point
	var depth []int
	snap := func(pts []s2.Point) []s2.Point {
		raw = append(raw, pts)
		return g.snapPts(pts, mode)
	}
	for sIdx := 0; sIdx < nshell; sIdx++ {
		var c s2.Point
		var rmax float64
		if nshell <= 3 {
			c = base
			if sIdx == 1 {
				c = bx
			} else if sIdx == 2 {
				c = by
			}
			rmax = math.Tan((0.01 + 24*t.Float()*t.Float()) * math.Pi / 180)
		} else {
			// a ring of small shells around base, 20 degrees out, well separated
			c = planar(base, math.Tan(20*math.Pi/180), 2*math.Pi*float64(sIdx)/float64(nshell))
			rmax = math.Tan((0.01 + 1.5*t.Float()) * math.Pi / 180)
		}
		nmax := 90
		if nshell == 1 && t.Chance(150) {
			nmax = 300 // one big shell: loops of hundreds of vertices in both formats
		}
		n := g.vertexCount(g.capV(nmax))
		shell := snap(g.starLoop(c, n, rmax*0.6, rmax, t.Chance(500)))
		loops = append(loops, shell)
		depth = append(depth, 0)
		inner := rmax * 0.6 * math.Cos(math.Pi/float64(n)) * 0.8
		if t.Chance(400) {
			nh := g.vertexCount(g.capV(70))
			hole := snap(g.starLoop(c, nh, inner*0.6, inner, t.Chance(500)))
			loops = append(loops, hole)
			depth = append(depth, 1)
			inner2 := inner * 0.6 * math.Cos(math.Pi/float64(nh)) * 0.8
			if t.Chance(300) {
				ni := g.vertexCount(g.capV(40))
				loops = append(loops, snap(g.starLoop(c, ni, inner2*0.5, inner2, t.Chance(500))))
				depth = append(depth, 2)
			}
		}
	}
	d := ShapeDesc{Kind: KPolygon, Loops: loops, Depth: depth}
	if mode != SnapNone && d.BuildPolygon().Validate() != nil {
		// coarse snapping broke the nesting: snap at the leaf level instead (nanometre moves)
		for i, l := range raw {
			fine := make([]s2.Point, len(l))
			for j, p := range l {
				fine[j] = s2.CellFromPoint(p).ID().Parent(30).Point()
			}
			if !validLoop(fine) {
				fine = l
			}
			d.Loops[i] = fine
		}
	}
	return d
}

// cubeEdgePoint returns a point exactly on an edge of the cube (|two coordinates| equal and
// maximal), where the (s,t) coordinates reach their extreme values.
func (g *G) cubeEdgePoint() s2.Point {
	t := g.T
	z := 2*t.Float() - 1
	if t.Chance(100) {
		z = float64(int(t.Uint(3))) - 1 // a cube corner or an edge midpoint
	}
	a, b := 1.0, 1.0
	if t.Chance(500) {
		a = -1
	}
	if t.Chance(500) {
		b = -1
	}
	var v r3.Vector
	switch t.Uint(3) {
	case 0:
		v = r3.Vector{X: a, Y: b, Z: z}
	case 1:
		v = r3.Vector{X: a, Y: z, Z: b}
	default:
		v = r3.Vector{X: z, Y: a, Z: b}
	}
	return s2.Point{Vector: v.Normalize()}
}

// edgeStartPolygon draws a small polygon whose loops START at a point exactly on a cube edge and
// continue with cell centres of one level (8, 16, 24 or any), so that the compressed format is
// chosen and its first, fixed-length point has an extreme coordinate.
func (g *G) edgeStartPolygon() ShapeDesc {
	t := g.T
	lvl := 8 * (1 + int(t.Uint(3)))
	if t.Chance(300) {
		lvl = 4 + int(t.Uint(27))
	}
	v0 := g.cubeEdgePoint()
	n := 3 + int(t.Uint(6))
	size := s1.Angle(math.Max(8*math.Pow(0.5, float64(lvl)), 1e-7) * (1 + 30*t.Float()))
	if size > 0.3 {
		size = 0.3
	}
	for try := 0; try < 6; try++ {
		c := g.PointNear(v0, size)
		if c == v0 {
			continue
		}
		// star loop around c whose first vertex direction points at v0
		pts := make([]s2.Point, 0, n)
		pts = append(pts, v0)
		x, y := frame(c)
		dv := v0.Vector.Sub(c.Vector)
		phi0 := math.Atan2(dv.Dot(y.Vector), dv.Dot(x.Vector))
		rho := math.Tan(float64(c.Distance(v0)))
		for i := 1; i < n; i++ {
			q := planar(c, rho*(0.7+0.6*t.Float()), phi0+2*math.Pi*float64(i)/float64(n))
			pts = append(pts, s2.CellFromPoint(q).ID().Parent(lvl).Point())
		}
		if validLoop(pts) {
			l := s2.LoopFromPoints(clonePts(pts))
			if !l.IsNormalized() {
				// keep vertex 0 first, reverse the rest
				for a, b := 1, len(pts)-1; a < b; a, b = a+1, b-1 {
					pts[a], pts[b] = pts[b], pts[a]
				}
			}
			return ShapeDesc{Kind: KPolygon, Loops: [][]s2.Point{pts}, Depth: []int{0}}
		}
	}
	return ShapeDesc{Kind: KPolygon, Loops: [][]s2.Point{g.starLoop(g.Point(), 4, 0.05, 0.1, false)}, Depth: []int{0}}
}

// coarseCentrePolygon draws a triangle or quadrilateral whose vertices are centres of level 0-3
// cells (face centres, axis points), with zero components written as +0 the way a caller who types
// the coordinates would have them.
func (g *G) coarseCentrePolygon() ShapeDesc {
	t := g.T
	lvl := int(t.Uint(4))
	n := 3 + int(t.Uint(2))
	for try := 0; try < 8; try++ {
		pts := make([]s2.Point, 0, n)
		for draws := 0; len(pts) < n && draws < 40; draws++ {
			c := s2.CellFromPoint(g.Point()).ID().Parent(lvl).Point()
			if t.Chance(700) {
				c = s2.Point{Vector: r3.Vector{X: c.X + 0, Y: c.Y + 0, Z: c.Z + 0}} // -0 becomes +0
			}
			dup := false
			for _, q := range pts {
				if q == c || (q.X == -c.X && q.Y == -c.Y && q.Z == -c.Z) {
					dup = true
				}
			}
			if !dup {
				pts = append(pts, c)
			}
		}
		if validLoop(pts) {
			if l := s2.LoopFromPoints(clonePts(pts)); !l.IsNormalized() {
				for a, b := 0, len(pts)-1; a < b; a, b = a+1, b-1 {
					pts[a], pts[b] = pts[b], pts[a]
				}
			}
			return ShapeDesc{Kind: KPolygon, Loops: [][]s2.Point{pts}, Depth: []int{0}}
		}
	}
	return ShapeDesc{Kind: KPolygon, Loops: [][]s2.Point{g.starLoop(g.Point(), 4, 0.05, 0.1, false)}, Depth: []int{0}}
}
