// Package instr splices scheduling and lock-model hooks into a copy of /repo/s2 on the same source
// lines and produces a `go build -overlay` file. Nothing in /repo is modified.
package instr

import (
	"encoding/json"
	"fmt"
	"go/ast"
	"go/parser"
	"go/token"
	"os"
	"path/filepath"
	"sort"
	"strings"
)

type ins struct {
	off  int
	text string
	ord  int
}

// Site describes one yield site.
type Site struct {
	Name  string `json:"name"`
	Class int    `json:"class"` // 0=S 1=F 2=O
	Loop  bool   `json:"loop"`
}

type Result struct {
	Sites      []Site
	NS, NF, NO int
	NLock      int
	NoEntry    int // functions left without an entry site because their call count is order dependent
	NChan      int // channel operations and Cond waits turned into polling loops
	// Unmodelled: places where a goroutine can park in a way the one-runner scheduler cannot take
	// over (select without default, receive with a value, ...). A worker that stalls on sources
	// that have such places is an infrastructure failure of the check, not a verdict.
	Unmodelled  []string
	NLoop       int
	Files       int
	OverlayPath string
	SitesPath   string
}

var builtinCalls = map[string]bool{
	"len": true, "cap": true, "append": false, "make": false, "new": true, "copy": true, "delete": true,
	"panic": true, "min": true, "max": true, "abs": true,
	"float64": true, "float32": true, "int": true, "int8": true, "int16": true, "int32": true, "int64": true,
	"uint": true, "uint8": true, "uint16": true, "uint32": true, "uint64": true, "uintptr": true, "byte": true,
	"string": true, "bool": true,
}

var atomicMethods = map[string]bool{"Load": true, "Store": true, "Swap": true, "CompareAndSwap": true}
var waitMethods = map[string]bool{"Wait": true, "Signal": true, "Broadcast": true}

// syncCall classifies a call expression.
// kind: "" (none), "atomic", "lock", "unlock", "rlock", "runlock", "once", "gosched", "other-sync"
func syncCall(n ast.Node) (kind string, recv ast.Expr) {
	ce, ok := n.(*ast.CallExpr)
	if !ok {
		return "", nil
	}
	se, ok := ce.Fun.(*ast.SelectorExpr)
	if !ok {
		return "", nil
	}
	if id, ok := se.X.(*ast.Ident); ok {
		if id.Name == "atomic" {
			return "atomic", nil
		}
		if id.Name == "runtime" && se.Sel.Name == "Gosched" {
			return "gosched", nil
		}
		if id.Name == "time" && se.Sel.Name == "Sleep" {
			return "gosched", nil
		}
	}
	switch se.Sel.Name {
	case "Lock":
		if len(ce.Args) == 0 {
			return "lock", se.X
		}
	case "Unlock":
		if len(ce.Args) == 0 {
			return "unlock", se.X
		}
	case "RLock":
		if len(ce.Args) == 0 {
			return "rlock", se.X
		}
	case "RUnlock":
		if len(ce.Args) == 0 {
			return "runlock", se.X
		}
	case "TryLock", "TryRLock":
		if len(ce.Args) == 0 {
			return "other-sync", nil
		}
	case "Do":
		if len(ce.Args) == 1 {
			return "once", se.X
		}
	}
	if atomicMethods[se.Sel.Name] {
		return "atomic", nil
	}
	if waitMethods[se.Sel.Name] && len(ce.Args) == 0 {
		return "other-sync", nil
	}
	return "", nil
}

// addressable reports whether e is an identifier or a chain of field selections on one
// (so that &e compiles).
func addressable(e ast.Expr) bool {
	switch v := e.(type) {
	case *ast.Ident:
		return true
	case *ast.SelectorExpr:
		return addressable(v.X)
	case *ast.ParenExpr:
		return addressable(v.X)
	case *ast.StarExpr:
		return addressable(v.X)
	}
	return false
}

// containsSync looks for a sync call in n without descending into nested blocks or func literals.
func containsSync(n ast.Node) (kind string, atomicOrYield bool) {
	ast.Inspect(n, func(m ast.Node) bool {
		if m == nil || kind != "" {
			return false
		}
		switch m.(type) {
		case *ast.BlockStmt, *ast.FuncLit:
			if m != n {
				return false
			}
		}
		if k, _ := syncCall(m); k != "" {
			kind = k
			return false
		}
		return true
	})
	return kind, kind == "atomic" || kind == "gosched"
}

// deepAtomic looks for an atomic/gosched call anywhere in n except inside func literals.
func deepAtomic(n ast.Node) bool {
	found := false
	ast.Inspect(n, func(m ast.Node) bool {
		if m == nil || found {
			return false
		}
		if _, ok := m.(*ast.FuncLit); ok {
			return false
		}
		if k, _ := syncCall(m); k == "atomic" || k == "gosched" {
			found = true
			return false
		}
		return true
	})
	return found
}

// chanNames: names declared with a channel type anywhere in the package (fields, variables made
// with make(chan ...)); filled by Instrument before the statements are visited.
var chanNames = map[string]bool{}

func collectChanNames(files []*ast.File) {
	chanNames = map[string]bool{}
	isChan := func(e ast.Expr) bool {
		if ce, ok := e.(*ast.CallExpr); ok {
			if id, ok := ce.Fun.(*ast.Ident); ok && id.Name == "make" && len(ce.Args) > 0 {
				_, ok := ce.Args[0].(*ast.ChanType)
				return ok
			}
		}
		return false
	}
	for _, f := range files {
		ast.Inspect(f, func(m ast.Node) bool {
			switch x := m.(type) {
			case *ast.Field:
				if _, ok := x.Type.(*ast.ChanType); ok {
					for _, n := range x.Names {
						chanNames[n.Name] = true
					}
				}
			case *ast.ValueSpec:
				_, typed := x.Type.(*ast.ChanType)
				for i, n := range x.Names {
					if typed || (i < len(x.Values) && isChan(x.Values[i])) {
						chanNames[n.Name] = true
					}
				}
			case *ast.AssignStmt:
				for i, v := range x.Rhs {
					if i < len(x.Lhs) {
						if id, ok := x.Lhs[i].(*ast.Ident); ok && isChan(v) {
							chanNames[id.Name] = true
						}
					}
				}
			}
			return true
		})
	}
}

// parksUnmodelled names the way statement s (not its nested blocks) can park its goroutine outside
// the scheduler's control, or returns "".
func parksUnmodelled(s ast.Stmt) string {
	switch x := s.(type) {
	case *ast.SelectStmt:
		if !selectParks(x) || !hasContinue(x) {
			return "" // has a default clause (does not park), or is turned into a polling loop
		}
		return "select without default whose clauses say continue"
	case *ast.SendStmt:
		return "channel send of a computed value"
	case *ast.RangeStmt:
		name := ""
		switch r := x.X.(type) {
		case *ast.Ident:
			name = r.Name
		case *ast.SelectorExpr:
			name = r.Sel.Name
		}
		if chanNames[name] {
			return "range over a channel"
		}
		return ""
	}
	why := ""
	ast.Inspect(s, func(m ast.Node) bool {
		if m == nil || why != "" {
			return false
		}
		switch y := m.(type) {
		case *ast.BlockStmt, *ast.FuncLit:
			if m != ast.Node(s) {
				return false
			}
		case *ast.UnaryExpr:
			if y.Op == token.ARROW {
				why = "channel receive with a value"
			}
		case *ast.CallExpr:
			if se, ok := y.Fun.(*ast.SelectorExpr); ok && se.Sel.Name == "Wait" && len(y.Args) == 0 {
				why = "Wait() on a computed receiver or inside a larger statement"
			}
		}
		return true
	})
	return why
}

// selectParks: the select has no default clause (so it can park) and at least one clause.
func selectParks(sel *ast.SelectStmt) bool {
	n := 0
	for _, c := range sel.Body.List {
		if cc, ok := c.(*ast.CommClause); ok {
			if cc.Comm == nil {
				return false
			}
			n++
		}
	}
	return n > 0
}

func hasContinue(n ast.Node) bool {
	found := false
	ast.Inspect(n, func(m ast.Node) bool {
		if _, ok := m.(*ast.FuncLit); ok {
			return false
		}
		if b, ok := m.(*ast.BranchStmt); ok && b.Tok == token.CONTINUE {
			found = true
		}
		return !found
	})
	return found
}

// plainValue: an expression that can be evaluated again without side effects.
func plainValue(e ast.Expr) bool {
	switch x := e.(type) {
	case *ast.Ident, *ast.BasicLit:
		return true
	case *ast.SelectorExpr:
		return plainValue(x.X)
	case *ast.ParenExpr:
		return plainValue(x.X)
	case *ast.StarExpr:
		return plainValue(x.X)
	case *ast.CompositeLit:
		return len(x.Elts) == 0
	}
	return false
}

func isLeaf(body *ast.BlockStmt) bool {
	leaf := true
	ast.Inspect(body, func(m ast.Node) bool {
		if m == nil || !leaf {
			return false
		}
		switch v := m.(type) {
		case *ast.ForStmt, *ast.RangeStmt, *ast.GoStmt, *ast.DeferStmt:
			leaf = false
		case *ast.CallExpr:
			if id, ok := v.Fun.(*ast.Ident); ok && builtinCalls[id.Name] {
				return true
			}
			if _, ok := v.Fun.(*ast.ArrayType); ok {
				return true
			}
			leaf = false
		}
		return leaf
	})
	return leaf
}

func declaresSyncField(f *ast.File) bool {
	found := false
	ast.Inspect(f, func(m ast.Node) bool {
		if found {
			return false
		}
		if st, ok := m.(*ast.StructType); ok {
			for _, fl := range st.Fields.List {
				t := fl.Type
				if se, ok := t.(*ast.StarExpr); ok {
					t = se.X
				}
				if se, ok := t.(*ast.SelectorExpr); ok {
					if id, ok := se.X.(*ast.Ident); ok && (id.Name == "sync" || id.Name == "atomic") {
						found = true
					}
				}
			}
		}
		return true
	})
	return found
}

const hooksSrc = `package s2

// This file exists only in the verification overlay; it is never part of /repo.

import (
	"runtime"
	"sync"
)

var (
	VerifYieldFn        func(site int)
	VerifBeforeLockFn   func(p any, read bool, site int)
	VerifBeforeUnlockFn func(p any, read bool, site int)
	VerifCondFn         func(c any, op int, site int)
)

func verifYield(site int) {
	if f := VerifYieldFn; f != nil {
		f(site)
	}
}

// verifPoll is the "nothing yet" branch of a channel operation turned into a polling loop.
func verifPoll(site int) {
	if f := VerifYieldFn; f != nil {
		f(site)
	}
	runtime.Gosched()
}

// verifCondWait emulates x.Wait() for a sync.Cond (see the instrumenter) and reports whether it did.
func verifCondWait(x any, site int) bool {
	var l sync.Locker
	switch c := x.(type) {
	case *sync.Cond:
		if c != nil {
			l = c.L
		}
	}
	if l == nil {
		return false
	}
	verifBeforeUnlock(l, false, site)
	l.Unlock()
	if f := VerifCondFn; f != nil {
		f(x, 0, site) // parks the task in the simulator until the Cond is signalled
	}
	runtime.Gosched()
	verifBeforeLock(l, false, site)
	l.Lock()
	return true
}

// verifCondSignal tells the simulator that x (if it is a sync.Cond) is about to be signalled.
func verifCondSignal(x any, site int) {
	if c, ok := x.(*sync.Cond); ok && c != nil {
		if f := VerifCondFn; f != nil {
			f(c, 1, site)
		}
	}
}

func verifBeforeLock(p any, read bool, site int) {
	if f := VerifBeforeLockFn; f != nil {
		f(p, read, site)
	}
}

func verifBeforeUnlock(p any, read bool, site int) {
	if f := VerifBeforeUnlockFn; f != nil {
		f(p, read, site)
	}
}
`

// Instrument reads srcDir/*.go (non-test), writes instrumented copies to outDir and an overlay
// that maps keyDir/<file> to them.
func Instrument(srcDir, outDir, keyDir string) (*Result, error) {
	files, _ := filepath.Glob(filepath.Join(srcDir, "*.go"))
	sort.Strings(files)
	overlay := map[string]string{}
	fset := token.NewFileSet()
	res := &Result{}
	site := func(name string, class int, loop bool) int {
		res.Sites = append(res.Sites, Site{name, class, loop})
		switch class {
		case 0:
			res.NS++
		case 1:
			res.NF++
		default:
			res.NO++
		}
		if loop {
			res.NLoop++
		}
		return len(res.Sites) - 1
	}
	type parsed struct {
		fn   string
		src  []byte
		f    *ast.File
		sync bool
	}
	var ps []parsed
	for _, fn := range files {
		base := filepath.Base(fn)
		if strings.HasSuffix(base, "_test.go") {
			continue
		}
		src, err := os.ReadFile(fn)
		if err != nil {
			return nil, err
		}
		f, err := parser.ParseFile(fset, fn, src, parser.ParseComments)
		if err != nil {
			return nil, err
		}
		if f.Name.Name != "s2" {
			continue
		}
		// file-level: does it use sync at all?
		uses := declaresSyncField(f)
		if !uses {
			ast.Inspect(f, func(m ast.Node) bool {
				if uses {
					return false
				}
				if k, _ := syncCall(m); k != "" && k != "once" {
					uses = true
				}
				return true
			})
		}
		ps = append(ps, parsed{fn, src, f, uses})
	}
	// Functions whose number of calls depends on an order the Go runtime randomises or on the
	// order of a sort's input (sort comparators, and whatever runs inside a loop over a map) get no
	// function-entry site: the step count of a run, which the schedule is expressed in, must be a
	// function of the tape alone (two processes replaying one tape must count the same steps).
	var fs []*ast.File
	for _, p := range ps {
		fs = append(fs, p.f)
	}
	noEntry := orderDependent(fs)
	collectChanNames(fs)
	for _, p := range ps {
		base := filepath.Base(p.fn)
		src := p.src
		var inss []ins
		ord := 0
		add := func(pos token.Pos, text string) {
			inss = append(inss, ins{fset.Position(pos).Offset, text, ord})
			ord++
		}
		exprText := func(e ast.Expr) string {
			return string(src[fset.Position(e.Pos()).Offset:fset.Position(e.End()).Offset])
		}
		doStmt := func(s ast.Stmt, fname string) {
			switch s.(type) {
			case *ast.CaseClause, *ast.CommClause:
				// the clauses of a switch/select body are not statements one can put something
				// in front of; their own bodies are visited as statement lists of their own
				return
			}
			line := fset.Position(s.Pos()).Line
			// A goroutine that parks on a channel would keep the processor for ever under the
			// one-runner scheduler. A receive whose value is dropped (the "wait for close(done)"
			// idiom) and a send of a plain value are turned into polling loops with a spin-site
			// yield: same meaning, and the scheduler stays in charge.
			if es, ok := s.(*ast.ExprStmt); ok {
				if ue, ok := es.X.(*ast.UnaryExpr); ok && ue.Op == token.ARROW {
					loc := fmt.Sprintf("%s:%d:%s:chanrecv", base, line, fname)
					add(s.Pos(), "for verifWait := true; verifWait; { select { case ")
					add(s.End(), fmt.Sprintf(": verifWait = false; default: verifPoll(%d) } }", site("spin:"+loc, 0, true)))
					res.NChan++
					return
				}
			}
			if es, ok := s.(*ast.ExprStmt); ok {
				if ce, ok := es.X.(*ast.CallExpr); ok && len(ce.Args) == 0 {
					if se, ok := ce.Fun.(*ast.SelectorExpr); ok && (se.Sel.Name == "Signal" || se.Sel.Name == "Broadcast") && plainValue(se.X) {
						loc := fmt.Sprintf("%s:%d:%s:condsignal", base, line, fname)
						add(s.Pos(), fmt.Sprintf("verifYield(%d); verifCondSignal(%s, %d); ", site("pre:"+loc, 0, false), exprText(se.X), site("signal:"+loc, 0, false)))
						return
					}
					if se, ok := ce.Fun.(*ast.SelectorExpr); ok && se.Sel.Name == "Wait" && plainValue(se.X) {
						// x.Wait(): if x is a sync.Cond, the wait is modelled: release the lock, park in the
						// simulator until the Cond is signalled, take the lock again;
						// anything else (a WaitGroup waits for goroutines the library started itself,
						// which the scheduler does not hold back) waits for real
						loc := fmt.Sprintf("%s:%d:%s:condwait", base, line, fname)
						add(s.Pos(), fmt.Sprintf("if !verifCondWait(%s, %d) { ", exprText(se.X), site("spin:"+loc, 0, true)))
						add(s.End(), " }")
						res.NChan++
						return
					}
				}
			}
			if sel, ok := s.(*ast.SelectStmt); ok && sel.Body != nil && selectParks(sel) && !hasContinue(sel) {
				// a select that can park becomes a polling loop as well: every clause first ends the
				// loop, a default clause (there was none) polls. (Not when a clause body says
				// `continue`: that would then mean this loop instead of the caller's.)
				loc := fmt.Sprintf("%s:%d:%s:select", base, line, fname)
				add(s.Pos(), "for verifWait := true; verifWait; { ")
				for _, c := range sel.Body.List {
					if cc, ok := c.(*ast.CommClause); ok {
						add(cc.Colon+1, " verifWait = false; ")
					}
				}
				add(sel.Body.Rbrace, fmt.Sprintf(" default: verifPoll(%d); ", site("spin:"+loc, 0, true)))
				add(s.End(), " }")
				res.NChan++
				return
			}
			if ss, ok := s.(*ast.SendStmt); ok && plainValue(ss.Value) && plainValue(ss.Chan) {
				loc := fmt.Sprintf("%s:%d:%s:chansend", base, line, fname)
				add(s.Pos(), "for verifWait := true; verifWait; { select { case ")
				add(s.End(), fmt.Sprintf(": verifWait = false; default: verifPoll(%d) } }", site("spin:"+loc, 0, true)))
				res.NChan++
				return
			}
			if why := parksUnmodelled(s); why != "" {
				res.Unmodelled = append(res.Unmodelled, fmt.Sprintf("%s:%d:%s: %s", base, line, fname, why))
			}
			kind, _ := containsSync(s)
			if fs, ok := s.(*ast.ForStmt); ok && fs.Body != nil && deepAtomic(fs) {
				// possible spin-wait: force fairness at the top of each iteration
				loc := fmt.Sprintf("%s:%d:%s:loop", base, line, fname)
				add(fs.Body.Lbrace+1, fmt.Sprintf(" verifYield(%d); ", site("spin:"+loc, 0, true)))
			}
			if kind == "" {
				return
			}
			loc := fmt.Sprintf("%s:%d:%s:%s", base, line, fname, kind)
			if es, ok := s.(*ast.ExprStmt); ok {
				if k, recv := syncCall(es.X); recv != nil && addressable(recv) {
					r := exprText(recv)
					switch k {
					case "lock", "rlock":
						res.NLock++
						add(s.Pos(), fmt.Sprintf("verifYield(%d); verifBeforeLock(&%s, %v, %d); ", site("pre:"+loc, 0, false), r, k == "rlock", site("lockwait:"+loc, 0, false)))
						add(s.End(), fmt.Sprintf("; verifYield(%d)", site("post:"+loc, 0, false)))
						return
					case "unlock", "runlock":
						res.NLock++
						add(s.Pos(), fmt.Sprintf("verifYield(%d); verifBeforeUnlock(&%s, %v, %d); ", site("pre:"+loc, 0, false), r, k == "runlock", site("unlock:"+loc, 0, false)))
						add(s.End(), fmt.Sprintf("; verifYield(%d)", site("post:"+loc, 0, false)))
						return
					case "once":
						res.NLock++
						st := site("once:"+loc, 0, false)
						add(s.Pos(), fmt.Sprintf("verifYield(%d); verifBeforeLock(&%s, false, %d); ", site("pre:"+loc, 0, false), r, st))
						add(s.End(), fmt.Sprintf("; verifBeforeUnlock(&%s, false, %d); verifYield(%d)", r, st, site("post:"+loc, 0, false)))
						return
					}
				}
			}
			if ds, ok := s.(*ast.DeferStmt); ok {
				if k, recv := syncCall(ds.Call); recv != nil && addressable(recv) && (k == "unlock" || k == "runlock") {
					res.NLock++
					add(s.End(), fmt.Sprintf("; defer verifBeforeUnlock(&%s, %v, %d)", exprText(recv), k == "runlock", site("deferunlock:"+loc, 0, false)))
					return
				}
			}
			if kind == "once" {
				return // x.Do(...) inside a larger statement: not a sync.Once pattern we model
			}
			isSpin := kind == "gosched"
			add(s.Pos(), fmt.Sprintf("verifYield(%d); ", site("pre:"+loc, 0, isSpin)))
			switch s.(type) {
			case *ast.ExprStmt, *ast.AssignStmt, *ast.IncDecStmt:
				add(s.End(), fmt.Sprintf("; verifYield(%d)", site("post:"+loc, 0, false)))
			}
		}
		for _, d := range p.f.Decls {
			fd, ok := d.(*ast.FuncDecl)
			if !ok || fd.Body == nil {
				continue
			}
			fname := fd.Name.Name
			if fd.Recv != nil && len(fd.Recv.List) == 1 {
				t := fd.Recv.List[0].Type
				if se, ok := t.(*ast.StarExpr); ok {
					t = se.X
				}
				if id, ok := t.(*ast.Ident); ok {
					fname = id.Name + "." + fname
				}
			}
			if noEntry[fd.Name.Name] {
				res.NoEntry++
			}
			if fd.Name.Name != "init" && !isLeaf(fd.Body) && !noEntry[fd.Name.Name] {
				cls := 2
				if p.sync {
					cls = 1
				}
				add(fd.Body.Lbrace+1, fmt.Sprintf(" verifYield(%d); ", site(fmt.Sprintf("entry:%s:%d:%s", base, fset.Position(fd.Pos()).Line, fname), cls, false)))
			}
			ast.Inspect(fd.Body, func(n ast.Node) bool {
				var list []ast.Stmt
				switch b := n.(type) {
				case *ast.BlockStmt:
					list = b.List
				case *ast.CaseClause:
					list = b.Body
				case *ast.CommClause:
					list = b.Body
				}
				for _, s := range list {
					if ls, ok := s.(*ast.LabeledStmt); ok {
						s = ls.Stmt
					}
					doStmt(s, fname)
				}
				return true
			})
		}
		if len(inss) == 0 {
			continue
		}
		sort.SliceStable(inss, func(i, j int) bool {
			if inss[i].off != inss[j].off {
				return inss[i].off < inss[j].off
			}
			return inss[i].ord < inss[j].ord
		})
		var out strings.Builder
		prev := 0
		for _, in := range inss {
			out.Write(src[prev:in.off])
			out.WriteString(in.text)
			prev = in.off
		}
		out.Write(src[prev:])
		dst := filepath.Join(outDir, base)
		if err := os.WriteFile(dst, []byte(out.String()), 0o644); err != nil {
			return nil, err
		}
		overlay[filepath.Join(keyDir, base)] = dst
		res.Files++
	}
	hp := filepath.Join(outDir, "zz_verif_hooks.go")
	if err := os.WriteFile(hp, []byte(hooksSrc), 0o644); err != nil {
		return nil, err
	}
	overlay[filepath.Join(keyDir, "zz_verif_hooks.go")] = hp
	js, _ := json.MarshalIndent(map[string]any{"Replace": overlay}, "", " ")
	res.OverlayPath = filepath.Join(outDir, "overlay.json")
	if err := os.WriteFile(res.OverlayPath, js, 0o644); err != nil {
		return nil, err
	}
	sn, _ := json.Marshal(res.Sites)
	res.SitesPath = filepath.Join(outDir, "sites.json")
	if err := os.WriteFile(res.SitesPath, sn, 0o644); err != nil {
		return nil, err
	}
	return res, nil
}

// orderDependent returns the names (bare, package wide) of the functions that are called, directly
// or through one further call, from a sort comparator (a method called Less/Swap/Len, a function
// literal handed to package sort or slices: the number of comparisons depends on the order of the
// input, which in this package can come from a map) or from the body of a range loop over a map
// that can leave the loop early (how many entries it visits depends on the iteration order).
func orderDependent(files []*ast.File) map[string]bool {
	callees := func(n ast.Node, into map[string]bool) {
		ast.Inspect(n, func(m ast.Node) bool {
			if ce, ok := m.(*ast.CallExpr); ok {
				switch f := ce.Fun.(type) {
				case *ast.Ident:
					into[f.Name] = true
				case *ast.SelectorExpr:
					into[f.Sel.Name] = true
				}
			}
			return true
		})
	}
	// names declared with a map type: struct fields, and variables made with make(map...) / map literals
	mapNames, notMap := map[string]bool{}, map[string]bool{}
	isMapExpr := func(e ast.Expr) bool {
		switch x := e.(type) {
		case *ast.CompositeLit:
			_, ok := x.Type.(*ast.MapType)
			return ok
		case *ast.CallExpr:
			if id, ok := x.Fun.(*ast.Ident); ok && id.Name == "make" && len(x.Args) > 0 {
				_, ok := x.Args[0].(*ast.MapType)
				return ok
			}
		}
		return false
	}
	for _, f := range files {
		ast.Inspect(f, func(m ast.Node) bool {
			switch x := m.(type) {
			case *ast.Field:
				_, isMap := x.Type.(*ast.MapType)
				for _, n := range x.Names {
					if isMap {
						mapNames[n.Name] = true
					} else {
						notMap[n.Name] = true // the same name is a slice elsewhere: cannot tell by name
					}
				}
			case *ast.ValueSpec:
				if _, ok := x.Type.(*ast.MapType); ok {
					for _, n := range x.Names {
						mapNames[n.Name] = true
					}
				}
				for i, v := range x.Values {
					if i < len(x.Names) && isMapExpr(v) {
						mapNames[x.Names[i].Name] = true
					}
				}
			case *ast.AssignStmt:
				for i, v := range x.Rhs {
					if i < len(x.Lhs) {
						if id, ok := x.Lhs[i].(*ast.Ident); ok && isMapExpr(v) {
							mapNames[id.Name] = true
						}
					}
				}
			}
			return true
		})
	}
	calls := map[string]map[string]bool{}
	seeds := map[string]bool{}
	for _, f := range files {
		for _, d := range f.Decls {
			fd, ok := d.(*ast.FuncDecl)
			if !ok || fd.Body == nil {
				continue
			}
			c := calls[fd.Name.Name]
			if c == nil {
				c = map[string]bool{}
				calls[fd.Name.Name] = c
			}
			callees(fd.Body, c)
			switch fd.Name.Name {
			case "Less", "less", "Swap", "Len":
				if fd.Recv != nil {
					seeds[fd.Name.Name] = true
				}
			}
			ast.Inspect(fd.Body, func(m ast.Node) bool {
				switch x := m.(type) {
				case *ast.CallExpr:
					if se, ok := x.Fun.(*ast.SelectorExpr); ok {
						if id, ok := se.X.(*ast.Ident); ok && (id.Name == "sort" || id.Name == "slices") && !strings.Contains(se.Sel.Name, "Search") {
							// (a comparator literal counts through the Less methods it calls; what else it
							// calls - orientation predicates when sorting points by angle - sorts input
							// whose order does not come from a map, and stays instrumented)
							for _, a := range x.Args {
								if fl, ok := a.(*ast.FuncLit); ok {
									c := map[string]bool{}
									callees(fl.Body, c)
									for _, n := range []string{"Less", "less"} {
										if c[n] {
											seeds[n] = true
										}
									}
								}
							}
						}
					}
				case *ast.RangeStmt:
					name := ""
					switch r := x.X.(type) {
					case *ast.Ident:
						name = r.Name
					case *ast.SelectorExpr:
						name = r.Sel.Name
					}
					if mapNames[name] && !notMap[name] && exitsEarly(x.Body) {
						callees(x.Body, seeds)
					}
				}
				return true
			})
		}
	}
	out := map[string]bool{}
	for k := range seeds {
		out[k] = true
	}
	for depth := 0; depth < 1; depth++ {
		var add []string
		for k := range out {
			for c := range calls[k] {
				if !out[c] {
					add = append(add, c)
				}
			}
		}
		for _, c := range add {
			out[c] = true
		}
	}
	return out
}

// exitsEarly: the loop body can leave the loop (break, return, goto) before all entries are seen.
func exitsEarly(b *ast.BlockStmt) bool {
	found := false
	ast.Inspect(b, func(m ast.Node) bool {
		switch x := m.(type) {
		case *ast.FuncLit:
			return false
		case *ast.ReturnStmt:
			found = true
		case *ast.BranchStmt:
			if x.Tok == token.BREAK || x.Tok == token.GOTO {
				found = true
			}
		}
		return !found
	})
	return found
}
