//go:build !amd64

package core

func getg() uintptr { return 0 }
