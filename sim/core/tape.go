// Package core holds the two pieces every engine shares: the choice tape (the single source of
// every decision in a run) and the one-runner scheduler with its lock model.
//
// Everything a simulated task can touch lives in //go:norace functions over fixed-size arrays:
// no append, no maps, no fmt, no sync. Otherwise the race detector would see the simulator's own
// hand-off as synchronisation and could never report a missing happens-before edge in the code
// under test (see DESIGN.md §1.4).
package core

const MaxTape = 1 << 18

// Tape is the choice tape. In record mode draws come from a splitmix64 PRNG and are appended;
// in replay mode they come from the stored values (reduced modulo the requested range; past the
// end: 0). Generators are written so that a smaller draw is a simpler choice.
type Tape struct {
	Replay   bool
	Buf      [MaxTape]uint32
	N        int // record: number of draws stored; replay: number of stored values
	Pos      int
	rng      uint64
	Overflow bool
}

// T is the process-wide tape. One run at a time per process.
var T Tape

//go:norace
func (t *Tape) StartRecord(seed uint64) {
	t.Replay = false
	t.N = 0
	t.Pos = 0
	t.rng = seed
	t.Overflow = false
}

//go:norace
func (t *Tape) StartReplay(vals []uint32) {
	t.Replay = true
	n := len(vals)
	if n > MaxTape {
		n = MaxTape
	}
	for i := 0; i < n; i++ {
		t.Buf[i] = vals[i]
	}
	t.N = n
	t.Pos = 0
	t.Overflow = false
}

//go:norace
func (t *Tape) next64() uint64 {
	t.rng += 0x9e3779b97f4a7c15
	z := t.rng
	z = (z ^ (z >> 30)) * 0xbf58476d1ce4e5b9
	z = (z ^ (z >> 27)) * 0x94d049bb133111eb
	return z ^ (z >> 31)
}

// Uint returns a value in [0,n). n==0 or n==1 returns 0 but still consumes a tape cell so that the
// tape layout does not depend on ranges computed from the code under test.
//
//go:norace
func (t *Tape) Uint(n uint32) uint32 {
	var v uint32
	if t.Replay {
		if t.Pos < t.N {
			v = t.Buf[t.Pos]
		}
		if n > 1 {
			v %= n
		} else {
			v = 0
		}
		t.Pos++
		return v
	}
	if n > 1 {
		v = uint32(t.next64()>>11) % n
	}
	if t.Pos < MaxTape {
		t.Buf[t.Pos] = v
		t.Pos++
		t.N = t.Pos
	} else {
		t.Overflow = true
	}
	return v
}

// Int returns a value in [lo,hi] (inclusive); lo is the simplest choice.
//
//go:norace
func (t *Tape) Int(lo, hi int) int {
	if hi <= lo {
		t.Uint(1)
		return lo
	}
	return lo + int(t.Uint(uint32(hi-lo+1)))
}

// Bool: false is the simpler choice. p is the probability of true in per-mille.
//
//go:norace
func (t *Tape) Chance(permille uint32) bool {
	// draw in [0,1000); true iff draw >= 1000-permille, so a zeroed tape gives false.
	return t.Uint(1000) >= 1000-permille
}

// Float in [0,1) with 24 bits.
//
//go:norace
func (t *Tape) Float() float64 {
	return float64(t.Uint(1<<24)) / float64(1<<24)
}

// Snapshot copies the recorded/consumed tape prefix.
func (t *Tape) Snapshot() []uint32 {
	n := t.Pos
	if t.Replay && n > t.N {
		n = t.N
	}
	if n > MaxTape {
		n = MaxTape
	}
	out := make([]uint32, n)
	copy(out, t.Buf[:n])
	return out
}

// Mix derives a per-run seed from the batch seed, an engine tag and a run number.
func Mix(seed uint64, engine uint64, run uint64) uint64 {
	x := seed*0x9e3779b97f4a7c15 ^ engine*0xc2b2ae3d27d4eb4f ^ run*0x165667b19e3779f9
	x ^= x >> 33
	x *= 0xff51afd7ed558ccd
	x ^= x >> 33
	x *= 0xc4ceb9fe1a85ec53
	x ^= x >> 33
	return x
}
