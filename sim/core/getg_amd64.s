#include "textflag.h"

// func getg() uintptr: the address of the running goroutine's descriptor (an identity, nothing else).
TEXT ·getg(SB),NOSPLIT,$0-8
	MOVQ (TLS), AX
	MOVQ AX, ret+0(FP)
	RET
