//go:build amd64

package core

// getg returns an identity of the running goroutine (the address of its descriptor). It is used
// only to tell a simulated task from a goroutine the library itself may have started: hooks
// called by such a goroutine are ignored (it runs unscheduled), instead of being mistaken for the
// current task.
func getg() uintptr
