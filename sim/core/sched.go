package core

import (
	"reflect"
	"runtime"
	"runtime/debug"
	"sync"
	"sync/atomic"
	"syscall"
	"unsafe"
)

const (
	MaxTasks = 8
	MaxLocks = 512
	MaxSites = 1 << 15
	MaxTrace = 1 << 13
	mainSlot = MaxTasks
)

// task states
const (
	stNone = iota
	stReady
	stRunning
	stBlocked
	stDone
)

// site classes (computed by the instrumenter from the code, not from names)
const (
	ClassS = 0 // statement containing a sync call
	ClassF = 1 // function entry in a file that uses sync
	ClassO = 2 // any other non-leaf function entry
)

// strategies
const (
	StratSerial = 0 // run each task to completion, no preemption (the fault-free baseline)
	StratRandom = 1 // per-class geometric preemption countdowns
	StratPCT    = 2 // priorities with d change points at S/F sites
	StratOne    = 3 // exactly one preemption at a drawn S/F step
	NumStrats   = 4
)

// verdicts
const (
	VOK         = 0
	VDeadlock   = 1 // every unfinished task is blocked
	VSelfLock   = 2 // a task acquires a lock it already holds
	VHang       = 3 // step bound exceeded after preemptions stopped
	VBadUnlock  = 4 // unlock of a lock the model says is not held
	VOverflow   = 5 // simulator capacity exceeded (infrastructure, not a violation)
	VUpgradeLck = 6 // write-lock requested while holding the read lock
)

// trace event kinds
const (
	EvStart   = 1
	EvPreempt = 2 // task, site -> switched away
	EvBlock   = 3 // task blocked at lock site
	EvResume  = 4 // task scheduled
	EvDone    = 5
	EvVerdict = 6
	EvSpin    = 7 // forced hand-over at a spin-loop site
)

type lockModel struct {
	addr      uintptr
	writer    int
	readers   int
	readersBy [MaxTasks]int
	acquires  int
}

type Sched struct {
	active    bool
	n         int
	st        [MaxTasks]int8
	blockedOn [MaxTasks]uintptr
	blockSite [MaxTasks]int
	lastRun   [MaxTasks]int64
	taskG     [MaxTasks]uintptr // goroutine identity of each task
	Foreign   int64             // hook calls from goroutines that are not simulated tasks (ignored)
	rfd, wfd  [MaxTasks + 1]int
	pipes     bool
	cur       int
	locks     [MaxLocks]lockModel
	nlocks    int

	// strategy
	Strat     int
	mean      [3]uint32
	countdown [3]int64
	prio      [MaxTasks]int
	lowPrio   int
	changePt  [4]int64
	nchange   int
	onePt     int64
	oneDone   bool
	faultsOn  bool  // a preemption may still be injected
	lastFault int64 // step of the last injected preemption

	// counters
	Steps        int64
	StepsByClass [3]int64
	StepsTask    [MaxTasks]int64
	Switches     int
	SwByClass    [3]int
	Blocks       int
	MaxBlocked   int
	SpinSwitches int
	StepCap      int64
	opStart      int64 // step count at the last operation boundary (the cap applies per operation when boundaries are marked)
	LockAcq      int   // total modelled lock acquisitions in this run

	// verdict
	Verdict int
	VTask   int
	VSite   int

	// trace
	Trace  [MaxTrace * 3]int32
	NTrace int
	IHash  uint64 // hash of (task,site) over S-class yields: interleaving signature

	// site tables
	siteClass [MaxSites]uint8
	siteLoop  [MaxSites]bool
	nsites    int

	// per-site preemption counters (for evidence: context switches by site)
	SwSite [MaxSites]int32
	// SiteHist: steps per site over the life of the process (a development aid for hunting a
	// source of nondeterminism: two processes, same tape, diff the histograms)
	SiteHist [MaxSites]int32

	// SerialCount: when >=0 we are in a serial measuring run: count steps only.
	Counting      bool
	CountSteps    [3]int64
	CountLockAcq  int
	panics        [MaxTasks]string
	panicked      [MaxTasks]bool
	selfDeadlockS int
}

var S Sched

// SetSites installs the site class table produced by the instrumenter.
func SetSites(class []uint8, loop []bool) {
	if len(class) > MaxSites {
		panic("too many sites")
	}
	for i := range class {
		S.siteClass[i] = class[i]
		S.siteLoop[i] = loop[i]
	}
	S.nsites = len(class)
}

//go:norace
func rawWrite(fd int) {
	var b [1]byte
	b[0] = 1
	for {
		_, _, e := syscall.Syscall(syscall.SYS_WRITE, uintptr(fd), uintptr(unsafe.Pointer(&b)), 1)
		if e == syscall.EINTR {
			continue
		}
		if e != 0 {
			panic("verif: rawWrite failed")
		}
		return
	}
}

//go:norace
func rawRead(fd int) {
	var b [1]byte
	for {
		n, _, e := syscall.Syscall(syscall.SYS_READ, uintptr(fd), uintptr(unsafe.Pointer(&b)), 1)
		if e == syscall.EINTR {
			continue
		}
		if e != 0 || n != 1 {
			panic("verif: rawRead failed")
		}
		return
	}
}

//go:norace
func (s *Sched) rec(kind, task, site int) {
	if s.NTrace+3 <= len(s.Trace) {
		s.Trace[s.NTrace] = int32(kind)
		s.Trace[s.NTrace+1] = int32(task)
		s.Trace[s.NTrace+2] = int32(site)
		s.NTrace += 3
	}
}

// StratCfg carries the measured serial step counts used to scale change points and the step cap.
type StratCfg struct {
	Force    int   // -1: draw from the tape
	EstSF    int64 // S+F steps of the serial reference run of the same scripts
	EstTotal int64 // all steps of the serial reference run
}

// BeginRun resets the scheduler for n tasks and draws the strategy from the tape.
//
//go:norace
func (s *Sched) BeginRun(n int, cfg StratCfg) {
	if !s.pipes {
		for i := 0; i <= MaxTasks; i++ {
			var p [2]int
			if err := syscall.Pipe(p[:]); err != nil {
				panic(err)
			}
			s.rfd[i], s.wfd[i] = p[0], p[1]
		}
		s.pipes = true
	}
	s.n = n
	for i := 0; i < MaxTasks; i++ {
		s.st[i] = stNone
		s.blockedOn[i] = 0
		s.StepsTask[i] = 0
		s.lastRun[i] = 0
		s.taskG[i] = 0
		s.panicked[i] = false
		s.panics[i] = ""
	}
	for i := 0; i < n; i++ {
		s.st[i] = stReady
	}
	s.cur = -1
	s.nlocks = 0
	s.Steps = 0
	s.opStart = 0
	s.StepsByClass = [3]int64{}
	s.Switches = 0
	s.SwByClass = [3]int{}
	s.Blocks = 0
	s.MaxBlocked = 0
	s.SpinSwitches = 0
	s.LockAcq = 0
	s.Foreign = 0
	s.Verdict = VOK
	s.VTask, s.VSite = -1, -1
	s.NTrace = 0
	s.IHash = 1469598103934665603
	s.faultsOn = true
	s.lastFault = 0
	s.oneDone = false
	s.nchange = 0

	est := cfg.EstSF
	if est < 4 {
		est = 4
	}
	s.StepCap = 50*cfg.EstTotal + 200000

	t := &T
	if cfg.Force >= 0 {
		s.Strat = cfg.Force
		t.Uint(1)
	} else {
		// 0 must be the simplest choice: serial.
		d := t.Uint(20)
		switch {
		case d == 0:
			s.Strat = StratSerial
		case d < 10:
			s.Strat = StratRandom
		case d < 16:
			s.Strat = StratPCT
		default:
			s.Strat = StratOne
		}
	}
	switch s.Strat {
	case StratRandom:
		// swarm: per-class mean gaps; 0 disables the class.
		sTab := [...]uint32{0, 1, 2, 3, 6, 12}
		fTab := [...]uint32{0, 0, 8, 30, 120, 500}
		oTab := [...]uint32{0, 0, 0, 200, 1500, 10000}
		s.mean[ClassS] = sTab[t.Uint(uint32(len(sTab)))]
		s.mean[ClassF] = fTab[t.Uint(uint32(len(fTab)))]
		s.mean[ClassO] = oTab[t.Uint(uint32(len(oTab)))]
		for c := 0; c < 3; c++ {
			s.countdown[c] = s.drawGap(c)
		}
	case StratPCT:
		// priorities: a drawn permutation; higher runs first.
		for i := 0; i < n; i++ {
			s.prio[i] = 100 + i
		}
		for i := n - 1; i > 0; i-- {
			j := int(t.Uint(uint32(i + 1)))
			s.prio[i], s.prio[j] = s.prio[j], s.prio[i]
		}
		s.lowPrio = 99
		s.nchange = 1 + int(t.Uint(3))
		for i := 0; i < s.nchange; i++ {
			s.changePt[i] = 1 + int64(t.Uint(uint32(est)))
		}
	case StratOne:
		s.onePt = 1 + int64(t.Uint(uint32(est)))
	}
	s.active = true
}

//go:norace
func (s *Sched) drawGap(c int) int64 {
	m := s.mean[c]
	if m == 0 {
		return 0
	}
	u := T.Uint(2*m + 1)
	return int64(u) // 0: no further preemption in this class (faults stop)
}

// pick chooses the next task among ready ones (excluding `exclude`), or -1.
//
//go:norace
func (s *Sched) pick(exclude int) int {
	var c [MaxTasks]int
	k := 0
	for i := 0; i < s.n; i++ {
		if i != exclude && s.st[i] == stReady {
			c[k] = i
			k++
		}
	}
	if k == 0 {
		return -1
	}
	switch s.Strat {
	case StratPCT:
		best := c[0]
		for i := 1; i < k; i++ {
			if s.prio[c[i]] > s.prio[best] {
				best = c[i]
			}
		}
		return best
	case StratSerial:
		return c[0]
	}
	return c[T.Uint(uint32(k))]
}

// pickFair chooses, among ready tasks other than exclude, the one that ran least recently.
//
//go:norace
func (s *Sched) pickFair(exclude int) int {
	best := -1
	for i := 0; i < s.n; i++ {
		if i != exclude && s.st[i] == stReady {
			if best < 0 || s.lastRun[i] < s.lastRun[best] {
				best = i
			}
		}
	}
	return best
}

// switchTo hands the baton to t and parks the caller until it is scheduled again.
//
//go:norace
func (s *Sched) switchTo(self, t int) {
	s.lastRun[self] = s.Steps
	s.Switches++
	s.cur = t
	s.st[t] = stRunning
	s.rec(EvResume, t, 0)
	rawWrite(s.wfd[t])
	rawRead(s.rfd[self])
}

// finish ends the run with a verdict from inside a task: wake main, park forever.
//
//go:norace
func (s *Sched) finish(self, verdict, site int) {
	s.Verdict = verdict
	s.VTask = self
	s.VSite = site
	s.rec(EvVerdict, self, verdict)
	s.cur = -1
	s.active = false
	rawWrite(s.wfd[mainSlot])
	for {
		rawRead(s.rfd[self])
	}
}

// Yield is installed as s2.VerifYieldFn.
//
//go:norace
func Yield(site int) {
	s := &S
	if s.Counting {
		c := ClassO
		if site >= 0 && site < s.nsites {
			c = int(s.siteClass[site])
		}
		s.CountSteps[c]++
		return
	}
	if !s.active {
		return
	}
	self := s.cur
	if self < 0 || self >= s.n {
		return
	}
	if g := getg(); g != 0 && s.taskG[self] != 0 && g != s.taskG[self] {
		s.Foreign++ // a goroutine the library started: it is not ours to schedule
		return
	}
	cls := ClassO
	loop := false
	if site >= 0 && site < s.nsites {
		cls = int(s.siteClass[site])
		loop = s.siteLoop[site]
	}
	s.Steps++
	s.StepsByClass[cls]++
	s.StepsTask[self]++
	if site >= 0 && site < MaxSites {
		s.SiteHist[site]++
	}
	if cls == ClassS {
		s.IHash = (s.IHash ^ uint64(self*65536+site)) * 1099511628211
	}
	if s.Steps-s.opStart > s.StepCap {
		s.finish(self, VHang, site)
	}
	if loop {
		// spin-wait site: fairness requires letting someone else run, and the someone must
		// eventually be the task the spinner is waiting for: take the ready task that has been
		// off the processor longest (round-robin), whatever the strategy's priorities say.
		t := s.pickFair(self)
		if t >= 0 {
			if s.Strat == StratPCT {
				// a task that yields voluntarily drops to the lowest priority (PCT's rule)
				s.prio[self] = s.lowPrio
				s.lowPrio--
			}
			s.SpinSwitches++
			s.rec(EvSpin, self, site)
			s.st[self] = stReady
			s.switchTo(self, t)
		}
		return
	}
	pre := false
	switch s.Strat {
	case StratRandom:
		if s.countdown[cls] > 0 {
			s.countdown[cls]--
			if s.countdown[cls] == 0 {
				pre = true
				s.countdown[cls] = s.drawGap(cls)
			}
		}
	case StratPCT:
		if cls != ClassO {
			sf := s.StepsByClass[ClassS] + s.StepsByClass[ClassF]
			for i := 0; i < s.nchange; i++ {
				if s.changePt[i] == sf {
					s.prio[self] = s.lowPrio
					s.lowPrio--
					pre = true
				}
			}
		}
	case StratOne:
		if cls != ClassO && !s.oneDone {
			sf := s.StepsByClass[ClassS] + s.StepsByClass[ClassF]
			if sf == s.onePt {
				s.oneDone = true
				pre = true
			}
		}
	}
	if !pre {
		return
	}
	s.st[self] = stReady
	t := s.pick(self)
	if s.Strat == StratPCT {
		// self may still be the highest priority
		if t < 0 || s.prio[self] > s.prio[t] {
			s.st[self] = stRunning
			return
		}
	}
	if t < 0 {
		s.st[self] = stRunning
		return
	}
	s.lastFault = s.Steps
	s.SwByClass[cls]++
	if site >= 0 && site < MaxSites {
		s.SwSite[site]++
	}
	s.rec(EvPreempt, self, site)
	s.switchTo(self, t)
}

//go:norace
func lockAddr(p any) uintptr {
	switch v := p.(type) {
	case *sync.RWMutex:
		return uintptr(unsafe.Pointer(v))
	case *sync.Mutex:
		return uintptr(unsafe.Pointer(v))
	case **sync.RWMutex:
		return uintptr(unsafe.Pointer(*v))
	case **sync.Mutex:
		return uintptr(unsafe.Pointer(*v))
	}
	// unknown locker (e.g. a struct that embeds a mutex, reached through a pointer variable):
	// strip pointer-to-pointer levels so that the identity is the object, not the variable
	rv := reflect.ValueOf(p)
	for rv.Kind() == reflect.Ptr && !rv.IsNil() && rv.Elem().Kind() == reflect.Ptr {
		rv = rv.Elem()
	}
	if rv.Kind() == reflect.Ptr {
		return rv.Pointer()
	}
	return uintptr((*[2]unsafe.Pointer)(unsafe.Pointer(&p))[1])
}

//go:norace
func (s *Sched) lockOf(a uintptr) *lockModel {
	for i := 0; i < s.nlocks; i++ {
		if s.locks[i].addr == a {
			return &s.locks[i]
		}
	}
	if s.nlocks == MaxLocks {
		return nil
	}
	l := &s.locks[s.nlocks]
	*l = lockModel{addr: a, writer: -1}
	s.nlocks++
	return l
}

// BeforeLock is installed as s2.VerifBeforeLockFn. It reserves the lock in the model, or blocks
// the task in the simulator, so that the real Lock() that follows can never block.
//
//go:norace
func BeforeLock(p any, read bool, site int) {
	s := &S
	if s.Counting {
		s.CountLockAcq++
	}
	if !s.active {
		mainLock(lockAddr(p), read, site)
		return
	}
	self := s.cur
	if self < 0 || self >= s.n {
		return
	}
	if g := getg(); g != 0 && s.taskG[self] != 0 && g != s.taskG[self] {
		s.Foreign++
		return
	}
	a := lockAddr(p)
	for {
		l := s.lockOf(a)
		if l == nil {
			s.finish(self, VOverflow, site)
		}
		if l.writer == self {
			s.finish(self, VSelfLock, site)
		}
		if !read && l.readersBy[self] > 0 {
			s.finish(self, VUpgradeLck, site)
		}
		if l.writer < 0 && (read || l.readers == 0) {
			if read {
				l.readers++
				l.readersBy[self]++
			} else {
				l.writer = self
			}
			l.acquires++
			s.LockAcq++
			return
		}
		s.st[self] = stBlocked
		s.blockedOn[self] = a
		s.blockSite[self] = site
		s.Blocks++
		nb := 0
		for i := 0; i < s.n; i++ {
			if s.st[i] == stBlocked {
				nb++
			}
		}
		if nb > s.MaxBlocked {
			s.MaxBlocked = nb
		}
		s.rec(EvBlock, self, site)
		t := s.pick(self)
		if t < 0 {
			s.finish(self, VDeadlock, site)
		}
		s.switchTo(self, t)
	}
}

// BeforeUnlock is installed as s2.VerifBeforeUnlockFn.
//
//go:norace
func BeforeUnlock(p any, read bool, site int) {
	s := &S
	if !s.active {
		mainUnlock(lockAddr(p), read)
		return
	}
	self := s.cur
	if self < 0 || self >= s.n {
		return
	}
	if g := getg(); g != 0 && s.taskG[self] != 0 && g != s.taskG[self] {
		s.Foreign++
		return
	}
	a := lockAddr(p)
	l := s.lockOf(a)
	if l == nil {
		s.finish(self, VOverflow, site)
	}
	if read {
		if l.readers <= 0 {
			s.finish(self, VBadUnlock, site)
		}
		l.readers--
		if l.readersBy[self] > 0 {
			l.readersBy[self]--
		}
	} else {
		if l.writer < 0 {
			s.finish(self, VBadUnlock, site)
		}
		l.writer = -1
	}
	for i := 0; i < s.n; i++ {
		if s.st[i] == stBlocked && s.blockedOn[i] == a {
			s.st[i] = stReady
			s.blockedOn[i] = 0
		}
	}
}

// CondOp is installed as s2.VerifCondFn: the model of sync.Cond. op 0 = Wait (the caller has
// released the Cond's lock in the model and for real, and takes it again afterwards): the task is
// parked in the simulator until some task signals this Cond, so that waiters do not pass the lock
// among themselves for ever while the task they wait for never gets it. op 1 = Signal/Broadcast:
// every task parked on this Cond becomes runnable (for Signal that is more than required, i.e.
// wake-ups without a signal for the others, which waiters of a Cond must tolerate). If every task
// is parked, that is a deadlock verdict (a lost wake-up). Outside a burst, and on goroutines that
// are not simulated tasks, Wait returns at once (a wake-up without a signal).
//
//go:norace
func CondOp(c any, op int, site int) {
	s := &S
	if !s.active {
		return
	}
	self := s.cur
	if self < 0 || self >= s.n {
		return
	}
	if g := getg(); g != 0 && s.taskG[self] != 0 && g != s.taskG[self] {
		s.Foreign++
		return
	}
	a := lockAddr(c) ^ 1 // (a Cond is never at the address of a mutex, the tag is belt and braces)
	if op == 1 {
		for i := 0; i < s.n; i++ {
			if s.st[i] == stBlocked && s.blockedOn[i] == a {
				s.st[i] = stReady
				s.blockedOn[i] = 0
			}
		}
		return
	}
	s.st[self] = stBlocked
	s.blockedOn[self] = a
	s.blockSite[self] = site
	s.Blocks++
	s.rec(EvBlock, self, site)
	t := s.pick(self)
	if t < 0 {
		s.finish(self, VDeadlock, site)
	}
	s.switchTo(self, t)
}

// ---- single-goroutine guard: code run outside a simulated burst (world set-up, serial
// reference runs) still gets a decided verdict for "re-acquires a lock it holds" instead of a
// silent hang: the hook panics with SelfDeadlock, which unwinds through the library.

type SelfDeadlock struct{ Site int }

func (e SelfDeadlock) Error() string {
	return "verif: self-deadlock: the goroutine re-acquires a lock it already holds (site " + itoa(e.Site) + ")"
}

func itoa(n int) string {
	if n == 0 {
		return "0"
	}
	neg := n < 0
	if neg {
		n = -n
	}
	var b [20]byte
	i := len(b)
	for n > 0 {
		i--
		b[i] = byte('0' + n%10)
		n /= 10
	}
	if neg {
		i--
		b[i] = '-'
	}
	return string(b[i:])
}

var mainHeld [64]struct {
	addr    uintptr
	writer  bool
	readers int
}

func ResetMainLocks() {
	for i := range mainHeld {
		mainHeld[i].addr = 0
		mainHeld[i].writer = false
		mainHeld[i].readers = 0
	}
}

func mainLock(a uintptr, read bool, site int) {
	free := -1
	for i := range mainHeld {
		h := &mainHeld[i]
		if h.addr == a {
			if h.writer || (!read && h.readers > 0) {
				h.writer = false
				h.readers = 0
				h.addr = 0
				panic(SelfDeadlock{site})
			}
			if read {
				h.readers++
			} else {
				h.writer = true
			}
			return
		}
		if h.addr == 0 && free < 0 {
			free = i
		}
	}
	if free >= 0 {
		mainHeld[free].addr = a
		mainHeld[free].writer = !read
		if read {
			mainHeld[free].readers = 1
		}
	}
}

func mainUnlock(a uintptr, read bool) {
	for i := range mainHeld {
		h := &mainHeld[i]
		if h.addr == a {
			if read {
				if h.readers > 0 {
					h.readers--
				}
			} else {
				h.writer = false
			}
			if !h.writer && h.readers == 0 {
				h.addr = 0
			}
			return
		}
	}
}

//go:norace
func taskStart(id int) {
	S.taskG[id] = getg()
	atomic.AddInt32(&tasksStarted, 1)
	rawRead(S.rfd[id])
}

// tasksStarted counts the task goroutines of the current run that have recorded their identity.
// RunTasks waits for all of them before the first task is given the processor: a goroutine that
// the LIBRARY starts (worker goroutines of a parallel index build, say) calls the hooks too, and is
// told apart from the running task by identity alone; while a task's identity was still unrecorded
// such a goroutine was taken for that task, switched the processor away in its name, and the model
// and the real locks parted company (seen as a stalled worker on a correct change: a false alarm).
var tasksStarted int32

//go:norace
func taskDone(id int) {
	s := &S
	if !s.active {
		// run already ended with a verdict; park forever
		for {
			rawRead(s.rfd[id])
		}
	}
	s.st[id] = stDone
	s.rec(EvDone, id, 0)
	t := s.pick(id)
	if t >= 0 {
		s.cur = t
		s.st[t] = stRunning
		s.Switches++
		s.rec(EvResume, t, 0)
		rawWrite(s.wfd[t])
		return
	}
	for i := 0; i < s.n; i++ {
		if s.st[i] == stBlocked {
			s.Verdict = VDeadlock
			s.VTask = i
			s.VSite = s.blockSite[i]
			s.rec(EvVerdict, i, VDeadlock)
		}
	}
	s.cur = -1
	s.active = false
	rawWrite(s.wfd[mainSlot])
}

//go:norace
func runAll() {
	s := &S
	t := s.pick(-1)
	s.cur = t
	s.st[t] = stRunning
	s.rec(EvStart, t, 0)
	rawWrite(s.wfd[t])
	rawRead(s.rfd[mainSlot])
}

// TaskPanic describes a panic recovered in a task.
type TaskPanic struct {
	Task  int
	Value string
	Stack string
}

// RunTasks runs fns as simulated tasks under the scheduler (BeginRun must have been called with
// n == len(fns)). It returns the verdict and recovered panics. If the verdict is not VOK the
// task goroutines are parked forever and the process must exit after reporting.
func RunTasks(fns []func(), toStr func(any) string) (int, []TaskPanic) {
	n := len(fns)
	atomic.StoreInt32(&tasksStarted, 0)
	var wg sync.WaitGroup
	pan := make([]TaskPanic, n)
	got := make([]bool, n)
	for i := 0; i < n; i++ {
		wg.Add(1)
		go func(id int) {
			taskStart(id)
			func() {
				defer func() {
					if x := recover(); x != nil {
						got[id] = true
						pan[id] = TaskPanic{Task: id, Value: toStr(x), Stack: string(debug.Stack())}
					}
				}()
				fns[id]()
			}()
			taskDone(id)
			wg.Done()
		}(i)
	}
	for atomic.LoadInt32(&tasksStarted) < int32(n) {
		runtime.Gosched()
	}
	runAll()
	if S.Verdict != VOK {
		return S.Verdict, nil
	}
	wg.Wait()
	var out []TaskPanic
	for i := 0; i < n; i++ {
		if got[i] {
			out = append(out, pan[i])
		}
	}
	return VOK, out
}

// OpBoundary marks the start of a new operation of a single-task history: the step bound then
// applies to each operation separately (a history of many legitimately expensive calls must not
// add up to a "hang").
//
//go:norace
func OpBoundary() { S.opStart = S.Steps }

// StartCounting / StopCounting bracket a serial measuring run on the calling goroutine.
func StartCounting() {
	S.Counting = true
	S.CountSteps = [3]int64{}
	S.CountLockAcq = 0
}
func StopCounting() { S.Counting = false }

// FaultsStoppedAt reports the step of the last injected preemption.
func (s *Sched) FaultsStoppedAt() int64 { return s.lastFault }

func VerdictName(v int) string {
	switch v {
	case VOK:
		return "ok"
	case VDeadlock:
		return "deadlock"
	case VSelfLock:
		return "self-deadlock"
	case VHang:
		return "hang"
	case VBadUnlock:
		return "unlock-of-unlocked"
	case VOverflow:
		return "sim-overflow"
	case VUpgradeLck:
		return "self-deadlock-upgrade"
	}
	return "?"
}

func EvName(k int) string {
	switch k {
	case EvStart:
		return "start"
	case EvPreempt:
		return "preempt"
	case EvBlock:
		return "block"
	case EvResume:
		return "run"
	case EvDone:
		return "done"
	case EvVerdict:
		return "verdict"
	case EvSpin:
		return "spin-yield"
	}
	return "?"
}
