// verif is the parent driver: it instruments and builds the workers from /repo's current tree,
// runs seeded simulations in worker processes, classifies what they find, minimises new
// violations into replay files and writes the evidence file.
//
//	verif check <property-id> [--tier quick|thorough]
//	verif replay <replay-file>
//	verif selftest-determinism <engine> [runs]
package main

import (
	"encoding/json"
	"fmt"
	"os"
	"path/filepath"
	"runtime"
	"sort"
	"strconv"
	"strings"
	"time"
)

type engineRun struct {
	spec        engineSpec
	quickRuns   uint64 // per worker
	thorRuns    uint64
	quickDL     time.Duration
	thorDL      time.Duration
	extra       []string
	label       string
	faultFree   bool
	description string
	perProc     uint64
}

type checkSpec struct {
	id          string
	level       string
	rule        string
	explanation string
	assumptions []string
	real        []string
	stubs       []string
	runs        []engineRun
}

var specs = map[string]*checkSpec{}

func envUint(name string, def uint64) uint64 {
	if v := os.Getenv(name); v != "" {
		if n, err := strconv.ParseUint(v, 10, 64); err == nil {
			return n
		}
		if n, err := strconv.ParseInt(v, 10, 64); err == nil {
			return uint64(n)
		}
	}
	return def
}

func main() {
	if len(os.Args) < 2 {
		fmt.Fprintln(os.Stderr, "usage: verif check <id> [--tier quick|thorough] | verif replay <file>")
		os.Exit(2)
	}
	switch os.Args[1] {
	case "check":
		if len(os.Args) < 3 {
			infra("check needs a property id")
		}
		id := os.Args[2]
		tier := os.Getenv("VERIF_TIER")
		if tier == "" {
			tier = "quick"
		}
		for i := 3; i < len(os.Args); i++ {
			if os.Args[i] == "--tier" && i+1 < len(os.Args) {
				tier = os.Args[i+1]
			}
		}
		if tier != "quick" && tier != "thorough" {
			infra("unknown tier %q", tier)
		}
		os.Exit(doCheck(id, tier))
	case "replay":
		if len(os.Args) < 3 {
			infra("replay needs a file")
		}
		os.Exit(doReplay(os.Args[2]))
	case "selftest-determinism":
		os.Exit(doDeterminism(os.Args[2:]))
	default:
		infra("unknown command %q", os.Args[1])
	}
}

type classKey struct{ kind, site string }

// ReplayFile is what a violation is reported as.
type ReplayFile struct {
	Property string    `json:"property"`
	Engine   string    `json:"engine"`
	Label    string    `json:"label"`
	Extra    []string  `json:"extra_args,omitempty"`
	Race     bool      `json:"race_build"`
	Seed     uint64    `json:"seed"`
	Idx      uint64    `json:"idx"`
	Expect   Violation `json:"expect"`
	Tape     []uint32  `json:"tape"`
	TapeLen0 int       `json:"tape_len_before_minimisation"`
	Trace    []string  `json:"trace"`
	Report   string    `json:"report,omitempty"`
	Note     string    `json:"note,omitempty"`
}

func workersFor(tier string) int {
	n := runtime.NumCPU()
	if n > 16 {
		n = 16
	}
	if v := envUint("VERIF_WORKERS", 0); v > 0 {
		n = int(v)
	}
	return n
}

func doCheck(id, tier string) int {
	spec := specs[id]
	if spec == nil {
		infra("no check for property %q", id)
	}
	seed := envUint("VERIF_SEED", 1)
	t0 := time.Now()
	needRace, needNative := false, false
	for _, r := range spec.runs {
		if r.spec.race {
			needRace = true
		} else {
			needNative = true
		}
	}
	b := buildWorkers(needRace, needNative)
	defer b.cleanup()
	known := loadKnown()

	type agg struct {
		run engineRun
		cfg *poolCfg
		out *poolOut
		sec float64
	}
	var aggs []*agg
	for _, r := range spec.runs {
		cfg := &poolCfg{eng: r.spec, sites: b.sites, seed: seed, tier: tier, workers: workersFor(tier), stallKill: 300 * time.Second, emitFirst: 2, extra: r.extra, perProc: r.perProc, unmodelled: b.instr.Unmodelled}
		if r.spec.race {
			cfg.bin = b.workerR
		} else {
			cfg.bin = b.worker
		}
		if tier == "quick" {
			cfg.runsPer, cfg.deadline = r.quickRuns, r.quickDL
		} else {
			cfg.runsPer, cfg.deadline = r.thorRuns, r.thorDL
		}
		if v := envUint("VERIF_RUNS_PER_WORKER", 0); v > 0 {
			cfg.runsPer = v
		}
		t1 := time.Now()
		out := runPool(cfg)
		aggs = append(aggs, &agg{r, cfg, out, time.Since(t1).Seconds()})
	}

	// ---- classify ----------------------------------------------------------------------------
	exit := 0
	violations := 0
	var lines []string
	var infraErrs []string
	knownSeen := map[string]bool{}
	var capNotes []string
	for _, a := range aggs {
		infraErrs = append(infraErrs, a.out.infraErrs...)
		classes := map[classKey][]found{}
		var order []classKey
		sort.Slice(a.out.found, func(i, j int) bool { return a.out.found[i].Idx < a.out.found[j].Idx })
		for _, f := range a.out.found {
			k := classKey{f.V.Kind, f.V.Site}
			if _, ok := classes[k]; !ok {
				order = append(order, k)
			}
			classes[k] = append(classes[k], f)
		}
		minimised := 0
		reported := 0
		for _, k := range order {
			fs := classes[k]
			if kf := known.match(id, k.kind, k.site); kf != nil {
				if !knownSeen[kf.raw] {
					knownSeen[kf.raw] = true
					lines = append(lines, fmt.Sprintf("KNOWN-FINDING: property=%s %s", id, kf.what))
				}
				continue
			}
			f := fs[0]
			// An out-of-memory abort under the workers' address-space cap is evidence only if the
			// run does it on its own: in a long-lived worker the garbage of earlier (legitimate,
			// within-limit) big decodes can add up to the cap. Re-run it alone in a fresh process.
			if k.kind == "abort" && strings.Contains(k.site, "out of memory") {
				tc := *a.cfg
				tc.trace = true
				if o := runOnce(&tc, f.Idx, "", 300*time.Second); !hasClass(o, k) {
					capNotes = append(capNotes, fmt.Sprintf("%s run %d: out-of-memory under the cap did not recur when the run was executed alone (accumulated garbage of earlier within-limit decodes): not counted", a.run.label, f.Idx))
					continue
				}
			} else if k.kind == "abort" || k.kind == "stall" || (k.kind == "hang" && wallClockHang[a.run.spec.name]) {
				// A verdict that rests on the wall clock (no progress for N seconds) or on the worker
				// process having died says something about the library only if the run does it again on
				// its own: on a loaded or memory-starved machine the kernel kills a worker, or a
				// legitimate call takes a minute, and neither is the library's doing. A genuine crash
				// or endless loop is a function of the tape and recurs. (Step-bound hangs and
				// deadlocks of the scheduler engines are decided in simulated steps and need no retry.)
				recurred := false
				for try := 0; try < len(fs) && try < 2 && !recurred; try++ {
					tc := *a.cfg
					tc.trace = true
					if o := runOnce(&tc, fs[try].Idx, "", 400*time.Second); hasKind(o, k.kind) {
						recurred = true
					}
				}
				if !recurred {
					capNotes = append(capNotes, fmt.Sprintf("%s run %d: %s (%s) did not recur when the run was executed alone in a fresh process (machine load or memory pressure at the time): not counted", a.run.label, f.Idx, k.kind, k.site))
					continue
				}
			}
			violations += len(fs)
			reported++
			if reported > 6 {
				lines = append(lines, fmt.Sprintf("  (also) kind=%s site=%s runs_affected=%d first_run=%d :: %s", k.kind, k.site, len(fs), f.Idx, f.V.Detail))
				continue
			}
			rf := &ReplayFile{Property: id, Engine: a.run.spec.name, Label: a.run.label, Extra: a.run.extra, Race: a.run.spec.race, Seed: seed, Idx: f.Idx, Expect: f.V, Tape: f.Tape, Trace: f.Trace, Report: f.Report}
			// obtain tape and trace when the worker could not deliver them (race, crash)
			if len(rf.Tape) == 0 {
				// (a race report can depend on what the process did before the run - which accesses the
				// detector still remembers -, so when the first affected run does not show the class
				// alone in a fresh process, the next affected runs are tried before giving up)
				for try := 0; try < len(fs) && try < 4; try++ {
					cand := fs[try]
					tc := *a.cfg
					tc.trace = true
					o := runOnce(&tc, cand.Idx, "", 180*time.Second)
					if try == 0 || hasClass(o, k) {
						rf.Idx, rf.Expect, rf.Report, rf.Note = cand.Idx, cand.V, cand.Report, ""
						if o.crash != nil && o.crash.V.Kind == k.kind {
							rf.Expect.Detail = o.crash.V.Detail
							rf.Report = o.crash.Report
						}
						if o.res != nil {
							rf.Tape, rf.Trace = o.res.Tape, o.res.Trace
						}
					}
					if hasClass(o, k) {
						f = cand
						break
					}
					rf.Note = "re-running the affected run indexes in fresh processes did not reproduce the same class; the original report is attached"
				}
			}
			rf.TapeLen0 = len(rf.Tape)
			path := filepath.Join(verifDir, "replays", fmt.Sprintf("%s-%s-seed%d-run%d-%s.json", id, a.run.spec.name, seed, f.Idx, classTag(k)))
			os.MkdirAll(filepath.Dir(path), 0o755)
			writeJSON(path, rf)
			// a hang or stall costs tens of seconds per candidate: minimised only in the thorough tier
			slowClass := k.kind == "hang" || k.kind == "stall"
			if len(rf.Tape) > 0 && rf.Note == "" && minimised < 3 && (!slowClass || tier == "thorough") {
				minimised++
				budget := 20 * time.Second
				if minimised == 1 {
					budget = 45 * time.Second
				}
				if tier == "thorough" {
					budget = 120 * time.Second
				}
				mt, mres := minimise(a.cfg, b, rf.Tape, k, 1500, budget)
				if mres != nil && len(mt) <= len(rf.Tape) {
					rf.Tape = mt
					if mres.res != nil {
						rf.Trace = mres.res.Trace
						if mres.res.Viol != nil && (mres.res.Viol.Kind == k.kind && mres.res.Viol.Site == k.site) {
							rf.Expect = *mres.res.Viol
						}
					}
					for _, r := range mres.races {
						if r.V.Kind == k.kind && r.V.Site == k.site {
							rf.Report = r.Report
						}
					}
					if mres.crash != nil && mres.crash.V.Kind == k.kind {
						rf.Report = mres.crash.Report
					}
					writeJSON(path, rf)
				}
			}
			lines = append(lines, fmt.Sprintf("VIOLATION property=%s replay=%s", id, path))
			lines = append(lines, fmt.Sprintf("  kind=%s site=%s runs_affected=%d :: %s", k.kind, k.site, len(fs), rf.Expect.Detail))
			exit = 1
		}
	}

	// ---- evidence ----------------------------------------------------------------------------
	wall := time.Since(t0).Seconds()
	var evals, distinctNT, extraDistinct uint64
	allStats := map[string]map[string]int64{}
	var samples []any
	sigsNT := map[uint64]struct{}{}
	sigsAll := map[uint64]struct{}{}
	perEngine := []map[string]any{}
	for _, a := range aggs {
		if e := a.out.stats["evals"]; e > 0 {
			evals += uint64(e)
		} else {
			evals += a.out.runs
		}
		if dc := a.out.stats["distinct_cases"]; dc > 0 {
			extraDistinct += uint64(dc)
		} else {
			for s := range a.out.sigsNT {
				sigsNT[s] = struct{}{}
			}
		}
		for s := range a.out.sigs {
			sigsAll[s] = struct{}{}
		}
		allStats[a.run.label] = a.out.stats
		for _, s := range a.out.samples {
			samples = append(samples, map[string]any{"engine": a.run.label, "run_index": s.Idx, "trace": s.Trace, "note": s.Sample})
		}
		rate := 0.0
		if a.sec > 0 {
			rate = float64(a.out.runs) / a.sec * 3600
		}
		perEngine = append(perEngine, map[string]any{"engine": a.run.label, "description": a.run.description, "fault_free": a.run.faultFree, "runs": a.out.runs, "wall_s": round1(a.sec),
			"runs_per_hour": int64(rate), "distinct_signatures": len(a.out.sigs), "distinct_nontrivial_signatures": len(a.out.sigsNT), "worker_restarts": a.out.restarts,
			"workers": a.cfg.workers, "race_detector": a.run.spec.race})
	}
	distinctNT = uint64(len(sigsNT)) + extraDistinct
	if len(samples) == 0 {
		samples = append(samples, "no sample trace was captured in this run")
	}
	ev := map[string]any{
		"property_id": id,
		"tier":        tier,
		"seed":        int64(seed),
		"level":       spec.level,
		"coverage": map[string]any{
			"evaluations":             evals,
			"distinct_nontrivial":     distinctNT,
			"rule":                    spec.rule,
			"samples":                 samples,
			"explanation":             spec.explanation,
			"engines":                 perEngine,
			"counters":                allStats,
			"simulated_time":          "this library has no clock; simulated time is the yield/event sequence: see counters.*.steps",
			"instrumentation":         map[string]any{"sites_S": b.instr.NS, "sites_F": b.instr.NF, "sites_O": b.instr.NO, "lock_statements": b.instr.NLock, "spin_loop_sites": b.instr.NLoop, "files": b.instr.Files},
			"real_code":               spec.real,
			"stubs":                   spec.stubs,
			"build_s":                 round1(b.buildSecs),
			"infrastructure_errors":   infraErrs,
			"address_space_cap_notes": capNotes,
		},
		"assumptions": spec.assumptions,
		"wall_s":      round1(wall),
		"violations":  violations,
	}
	os.MkdirAll(filepath.Join(verifDir, "evidence"), 0o755)
	writeJSON(filepath.Join(verifDir, "evidence", id+".json"), ev)

	for _, l := range lines {
		fmt.Println(l)
	}
	if exit == 0 && len(infraErrs) > 0 {
		fmt.Fprintf(os.Stderr, "verif: %d infrastructure errors, first: %s\n", len(infraErrs), infraErrs[0])
		return 2
	}
	if exit == 0 && evals == 0 {
		fmt.Fprintln(os.Stderr, "verif: no run completed")
		return 2
	}
	fmt.Printf("%s %s: %d runs, %d distinct non-trivial cases, %d violations, %.1fs\n", id, tier, evals, distinctNT, violations, wall)
	return exit
}

// classTag: a short stable tag of the violation class, so that several classes found in one run
// get separate replay files.
func classTag(k classKey) string {
	h := uint32(2166136261)
	for _, c := range []byte(k.kind + "|" + k.site) {
		h = (h ^ uint32(c)) * 16777619
	}
	return fmt.Sprintf("%s-%06x", k.kind, h&0xffffff)
}

func round1(x float64) float64 { return float64(int64(x*10+0.5)) / 10 }

func writeJSON(path string, v any) {
	b, err := json.MarshalIndent(v, "", " ")
	if err != nil {
		infra("marshal %s: %v", path, err)
	}
	if err := os.WriteFile(path, b, 0o644); err != nil {
		infra("write %s: %v", path, err)
	}
}

func classesOf(o *onceOut) []classKey {
	var ks []classKey
	if o == nil {
		return ks
	}
	if o.res != nil && o.res.Viol != nil {
		ks = append(ks, classKey{o.res.Viol.Kind, o.res.Viol.Site})
	}
	for _, r := range o.races {
		ks = append(ks, classKey{r.V.Kind, r.V.Site})
	}
	if o.crash != nil {
		ks = append(ks, classKey{o.crash.V.Kind, o.crash.V.Site})
	}
	return ks
}

// wallClockHang: engines whose "hang" verdict is a wall-clock watchdog (there is no yield inside a
// decode or an encode); the scheduler engines decide hangs in simulated steps.
var wallClockHang = map[string]bool{"c15enum": true, "c15seq": true, "c09benign": true, "c09hard": true, "c03": true}

func hasKind(o *onceOut, kind string) bool {
	for _, c := range classesOf(o) {
		if c.kind == kind {
			return true
		}
	}
	return false
}

func hasClass(o *onceOut, k classKey) bool {
	for _, c := range classesOf(o) {
		if c == k {
			return true
		}
	}
	return false
}

func doReplay(path string) int {
	b, err := os.ReadFile(path)
	if err != nil {
		infra("%v", err)
	}
	var rf ReplayFile
	if err := json.Unmarshal(b, &rf); err != nil {
		infra("bad replay file: %v", err)
	}
	spec := specs[rf.Property]
	if spec == nil {
		infra("unknown property %q", rf.Property)
	}
	var run *engineRun
	for i := range spec.runs {
		if spec.runs[i].spec.name == rf.Engine && spec.runs[i].label == rf.Label {
			run = &spec.runs[i]
		}
	}
	if run == nil {
		infra("replay file names engine %q/%q which this check does not have", rf.Engine, rf.Label)
	}
	bw := buildWorkers(run.spec.race, !run.spec.race)
	defer bw.cleanup()
	cfg := &poolCfg{eng: run.spec, sites: bw.sites, seed: rf.Seed, tier: "quick", workers: 1, extra: run.extra, trace: true, perProc: run.perProc}
	cfg.bin = bw.worker
	if run.spec.race {
		cfg.bin = bw.workerR
	}
	tf := ""
	if len(rf.Tape) > 0 {
		tf = filepath.Join(bw.scratch, "replay-tape.json")
		writeJSON(tf, map[string]any{"tape": rf.Tape})
	}
	o := runOnce(cfg, rf.Idx, tf, 300*time.Second)
	if o.infra != "" {
		infra("%s", o.infra)
	}
	want := classKey{rf.Expect.Kind, rf.Expect.Site}
	if o.res != nil {
		for _, l := range o.res.Trace {
			fmt.Println("  " + l)
		}
	}
	for _, r := range o.races {
		fmt.Println(r.Report)
	}
	if o.crash != nil {
		fmt.Println(o.crash.Report)
	}
	if hasClass(o, want) {
		fmt.Printf("VIOLATION property=%s replay=%s\n", rf.Property, path)
		fmt.Printf("  reproduced: kind=%s site=%s\n", want.kind, want.site)
		return 1
	}
	got := classesOf(o)
	if len(got) > 0 {
		fmt.Printf("replay did not reproduce kind=%s site=%s; it produced %v\n", want.kind, want.site, got)
		fmt.Printf("VIOLATION property=%s replay=%s\n", rf.Property, path)
		return 1
	}
	fmt.Printf("replay of %s: no violation on the current tree\n", path)
	return 0
}

func strJoin(a []string) string { return strings.Join(a, " ") }
