package main

import (
	"bufio"
	"bytes"
	"context"
	"encoding/json"
	"fmt"
	"io"
	"os"
	"os/exec"
	"regexp"
	"strconv"
	"strings"
	"sync"
	"syscall"
	"time"
)

// Violation mirrors the worker's.
type Violation struct {
	Kind   string `json:"kind"`
	Site   string `json:"site"`
	Detail string `json:"detail"`
}

type RunResult struct {
	T          string           `json:"t"`
	Engine     string           `json:"engine"`
	Idx        uint64           `json:"idx"`
	Seed       uint64           `json:"seed"`
	Viol       *Violation       `json:"viol,omitempty"`
	Stats      map[string]int64 `json:"stats,omitempty"`
	Sig        uint64           `json:"sig"`
	Nontrivial bool             `json:"nontrivial"`
	Sample     string           `json:"sample,omitempty"`
	Tape       []uint32         `json:"tape,omitempty"`
	Trace      []string         `json:"trace,omitempty"`
	Fatal      bool             `json:"fatal,omitempty"`
	WallUS     int64            `json:"wall_us"`
}

// found is a violation attributed to a run.
type found struct {
	Idx    uint64
	V      Violation
	Tape   []uint32
	Trace  []string
	Report string // race report / crash text
}

type engineSpec struct {
	name    string
	race    bool
	memCap  uint64 // bytes of address space per worker (0: none); never for race builds
	envExtr []string
}

type poolCfg struct {
	eng       engineSpec
	bin       string
	sites     string
	seed      uint64
	tier      string
	workers   int
	runsPer   uint64 // runs per worker
	deadline  time.Duration
	stallKill time.Duration
	emitFirst int
	extra     []string
	trace     bool   // runOnce only: let the worker name every damaged input on stderr
	perProc   uint64 // runs per worker process (0: no limit): 1 makes every run start in a fresh, cold process
	// unmodelled: places in the instrumented sources where a goroutine can park outside the
	// scheduler's control (instr.Result.Unmodelled); a stalled worker is then no verdict
	unmodelled []string
}

type poolOut struct {
	mu        sync.Mutex
	runs      uint64
	stats     map[string]int64
	sigs      map[uint64]struct{}
	sigsNT    map[uint64]struct{}
	nontriv   uint64
	found     []found
	samples   []RunResult
	wallUS    int64
	infraErrs []string
	restarts  int
	cancel    func()
}

var runMarkRe = regexp.MustCompile(`^VERIF-RUN (\d+)$`)

func raceEnv() string { return "GORACE=halt_on_error=0 exitcode=66 history_size=5" }

// raceSite builds a signature from a race report: the first geo frame of each of the two stacks.
var frameFnRe = regexp.MustCompile(`^\s+(github\.com/golang/geo/\S+?)\(\)$`)
var frameLocRe = regexp.MustCompile(`^\s+(/\S+\.go):(\d+)`)

func raceSite(report string) string {
	lines := strings.Split(report, "\n")
	var sigs []string
	inStack := false
	got := false
	firstFn := ""
	for i := 0; i < len(lines); i++ {
		ln := lines[i]
		t := strings.TrimSpace(ln)
		if strings.HasPrefix(t, "Read at") || strings.HasPrefix(t, "Write at") || strings.HasPrefix(t, "Previous read at") || strings.HasPrefix(t, "Previous write at") ||
			strings.HasPrefix(t, "Atomic read at") || strings.HasPrefix(t, "Atomic write at") || strings.HasPrefix(t, "Previous atomic") {
			inStack = true
			got = false
			continue
		}
		if t == "" {
			if inStack && !got && firstFn != "" {
				sigs = append(sigs, firstFn) // no golang/geo frame in this stack: name its innermost frame
			}
			inStack = false
			firstFn = ""
			continue
		}
		if strings.HasPrefix(t, "Goroutine ") {
			inStack = false
			continue
		}
		if inStack && !got {
			if firstFn == "" && strings.HasSuffix(t, "()") && !strings.HasPrefix(t, "/") {
				firstFn = strings.TrimSuffix(t, "()")
			}
			if strings.HasPrefix(t, "github.com/golang/geo/") {
				fn := strings.TrimSuffix(strings.TrimPrefix(t, "github.com/golang/geo/"), "()")
				loc := ""
				if i+1 < len(lines) {
					if m := frameLocRe.FindStringSubmatch(lines[i+1]); m != nil {
						p := m[1]
						if j := strings.LastIndex(p, "/"); j >= 0 {
							p = p[j+1:]
						}
						loc = p + ":" + m[2]
					}
				}
				sigs = append(sigs, fn+"@"+loc)
				got = true
			}
		}
	}
	if len(sigs) == 0 {
		return "unknown"
	}
	if len(sigs) > 2 {
		sigs = sigs[:2]
	}
	// order-insensitive
	if len(sigs) == 2 && sigs[0] > sigs[1] {
		sigs[0], sigs[1] = sigs[1], sigs[0]
	}
	return strings.Join(sigs, " <-> ")
}

// runWorker runs one worker process over [start, start+runs) and restarts it after fatal runs.
func runWorker(ctx context.Context, cfg *poolCfg, out *poolOut, wid int, start, runs uint64) {
	next := start
	end := start + runs
	tEnd := time.Now().Add(cfg.deadline)
	for next < end && time.Now().Before(tEnd) && ctx.Err() == nil {
		left := time.Until(tEnd)
		n := end - next
		if cfg.perProc > 0 && n > cfg.perProc {
			n = cfg.perProc
		}
		last, exitErr, crash := spawn(ctx, cfg, out, wid, next, n, left, nil)
		out.mu.Lock()
		if crash != nil {
			out.found = append(out.found, *crash)
		}
		out.mu.Unlock()
		if last+1 <= next && exitErr == nil && crash == nil {
			break // made no progress and no error: done (deadline)
		}
		if last+1 > next {
			next = last + 1
		} else {
			next++ // skip the run that killed the worker
		}
		if exitErr == nil {
			if cfg.perProc > 0 && next < end {
				continue // next process
			}
			break
		}
		out.mu.Lock()
		out.restarts++
		out.mu.Unlock()
	}
}

// spawn runs one process; returns the last completed/attempted run index, the exit error, and a
// crash finding if the process died abnormally during a run.
func spawn(ctx context.Context, cfg *poolCfg, out *poolOut, wid int, start, runs uint64, left time.Duration, onResult func(*RunResult)) (last uint64, exitErr error, crash *found) {
	if onResult == nil {
		onResult = func(r *RunResult) { out.absorb(r, cfg) }
	}
	args := []string{"-engine", cfg.eng.name, "-seed", fmt.Sprint(cfg.seed), "-start", fmt.Sprint(start), "-runs", fmt.Sprint(runs),
		"-tier", cfg.tier, "-sites", cfg.sites, "-deadline", left.String()}
	if wid == 0 && cfg.emitFirst > 0 && start == 0 {
		args = append(args, "-emitfirst", fmt.Sprint(cfg.emitFirst))
	}
	args = append(args, cfg.extra...)
	var cmd *exec.Cmd
	if cfg.eng.memCap > 0 && !cfg.eng.race {
		sh := fmt.Sprintf("ulimit -v %d; exec %s %s", cfg.eng.memCap/1024, cfg.bin, strings.Join(args, " "))
		cmd = exec.CommandContext(ctx, "/bin/bash", "-c", sh)
	} else {
		cmd = exec.CommandContext(ctx, cfg.bin, args...)
	}
	cmd.Env = append(os.Environ(), raceEnv(), "GOMAXPROCS=2")
	cmd.Env = append(cmd.Env, cfg.eng.envExtr...)
	cmd.SysProcAttr = &syscall.SysProcAttr{Setpgid: true}
	stdout, _ := cmd.StdoutPipe()
	stderr, _ := cmd.StderrPipe()
	if err := cmd.Start(); err != nil {
		out.mu.Lock()
		out.infraErrs = append(out.infraErrs, "start worker: "+err.Error())
		out.mu.Unlock()
		return start, nil, nil
	}
	var curIdx uint64 = start
	var lastFault string
	var curMu sync.Mutex
	haveCur := false
	lastDone := start
	doneAny := false
	progress := make(chan struct{}, 1)
	ping := func() {
		select {
		case progress <- struct{}{}:
		default:
		}
	}
	var wg sync.WaitGroup
	var errTail bytes.Buffer
	wg.Add(2)
	// stderr: run markers, race reports, crash text
	go func() {
		defer wg.Done()
		sc := bufio.NewScanner(stderr)
		sc.Buffer(make([]byte, 1<<20), 1<<24)
		inRace := false
		var rep strings.Builder
		for sc.Scan() {
			ln := sc.Text()
			if m := runMarkRe.FindStringSubmatch(ln); m != nil {
				n, _ := strconv.ParseUint(m[1], 10, 64)
				curMu.Lock()
				curIdx = n
				haveCur = true
				curMu.Unlock()
				errTail.Reset()
				ping()
				continue
			}
			if ln == "VERIF-ALIVE" {
				ping()
				continue
			}
			if strings.HasPrefix(ln, "VERIF-FAULT ") {
				curMu.Lock()
				lastFault = strings.TrimPrefix(ln, "VERIF-FAULT ")
				curMu.Unlock()
				ping()
				continue
			}
			if strings.HasPrefix(ln, "WARNING: DATA RACE") {
				inRace = true
				rep.Reset()
				rep.WriteString(ln + "\n")
				continue
			}
			if inRace {
				if strings.HasPrefix(ln, "==================") {
					inRace = false
					r := rep.String()
					curMu.Lock()
					idx := curIdx
					curMu.Unlock()
					out.mu.Lock()
					out.found = append(out.found, found{Idx: idx, V: Violation{Kind: "race", Site: raceSite(r), Detail: "data race reported by the Go race detector on a deterministic schedule"}, Report: r})
					if len(out.found) >= 60 && out.cancel != nil {
						out.cancel()
					}
					out.mu.Unlock()
					continue
				}
				rep.WriteString(ln + "\n")
				continue
			}
			if ln == "==================" || ln == "" {
				continue
			}
			if errTail.Len() < 16000 {
				errTail.WriteString(ln + "\n")
			}
		}
	}()
	// stdout: JSON results
	go func() {
		defer wg.Done()
		rd := bufio.NewReaderSize(stdout, 1<<20)
		for {
			line, err := rd.ReadBytes('\n')
			if len(line) > 1 {
				var r RunResult
				if json.Unmarshal(line, &r) == nil && r.T == "run" {
					onResult(&r)
					curMu.Lock()
					lastDone = r.Idx
					doneAny = true
					curMu.Unlock()
					ping()
				}
			}
			if err != nil {
				if err != io.EOF {
					_ = err
				}
				return
			}
		}
	}()
	waitCh := make(chan error, 1)
	go func() { wg.Wait(); waitCh <- cmd.Wait() }()
	stalled := false
	timer := time.NewTimer(cfg.stallKill)
loop:
	for {
		select {
		case err := <-waitCh:
			exitErr = err
			break loop
		case <-progress:
			if !timer.Stop() {
				select {
				case <-timer.C:
				default:
				}
			}
			timer.Reset(cfg.stallKill)
		case <-timer.C:
			stalled = true
			syscall.Kill(-cmd.Process.Pid, syscall.SIGKILL)
			exitErr = <-waitCh
			break loop
		}
	}
	curMu.Lock()
	defer curMu.Unlock()
	last = lastDone
	if !doneAny {
		last = start - 1
		if start == 0 {
			last = ^uint64(0) // so that last+1 == 0
		}
	}
	if exitErr == nil {
		return last, nil, nil
	}
	if ctx.Err() != nil {
		return last, nil, nil // batch cancelled: not a finding
	}
	code := -1
	if ee, ok := exitErr.(*exec.ExitError); ok {
		code = ee.ExitCode()
	}
	switch {
	case code == 3:
		// fatal verdict already reported on stdout
		return last, exitErr, nil
	case code == 66 && !stalled:
		// race detector exit code at process end; reports were captured from stderr
		return last, exitErr, nil
	case code == 4 && !stalled:
		// the worker's own "cannot even start" code (bad flags, unreadable sites file).
		// (A Go runtime fatal error exits 2 and is handled below as an abnormal death.)
		out.mu.Lock()
		out.infraErrs = append(out.infraErrs, "worker exited 4: "+tail(errTail.String(), 600))
		out.mu.Unlock()
		return last, exitErr, nil
	}
	// abnormal death during a run (fatal error, out of memory, killed by the watchdog)
	if stalled && len(cfg.unmodelled) > 0 {
		// The sources park goroutines in a construct the one-runner scheduler cannot take over
		// (it would have to own the wake-up): the worker sat still because the simulation could
		// not proceed, which says nothing about the library. Infrastructure failure, not a verdict.
		out.mu.Lock()
		out.infraErrs = append(out.infraErrs, fmt.Sprintf("worker stalled during run %d and the instrumented sources contain blocking constructs the scheduler does not model (%s): cannot decide", curIdx, strings.Join(cfg.unmodelled, "; ")))
		out.mu.Unlock()
		return last, exitErr, nil
	}
	if haveCur && (!doneAny || curIdx != lastDone) {
		kind := "abort"
		txt := errTail.String()
		if stalled {
			kind = "stall"
		}
		site := crashSite(txt)
		det := fmt.Sprintf("worker process died during run %d (exit %d, stalled=%v): %s", curIdx, code, stalled, firstLine(txt))
		if lastFault != "" {
			det += " | last input: " + lastFault
		}
		crash = &found{Idx: curIdx, V: Violation{Kind: kind, Site: site, Detail: det}, Report: tail(txt, 6000)}
		last = curIdx
	}
	return last, exitErr, crash
}

func firstLine(s string) string {
	for _, ln := range strings.Split(s, "\n") {
		if strings.TrimSpace(ln) != "" {
			if len(ln) > 300 {
				ln = ln[:300]
			}
			return ln
		}
	}
	return ""
}

func tail(s string, n int) string {
	if len(s) > n {
		return s[len(s)-n:]
	}
	return s
}

// crashSite: the first geo frame in a crash dump, with the fatal message class.
func crashSite(txt string) string {
	cls := "unknown"
	for _, ln := range strings.Split(txt, "\n") {
		if strings.HasPrefix(ln, "fatal error:") || strings.HasPrefix(ln, "panic:") || strings.HasPrefix(ln, "runtime:") {
			cls = ln
			if len(cls) > 80 {
				cls = cls[:80]
			}
			break
		}
	}
	cls = regexp.MustCompile(`\d{4,}`).ReplaceAllString(cls, "N")
	fr := ""
	for _, ln := range strings.Split(txt, "\n") {
		if strings.HasPrefix(ln, "github.com/golang/geo/") {
			if j := strings.LastIndex(ln, "("); j > 0 {
				fr = strings.TrimPrefix(ln[:j], "github.com/golang/geo/")
				break
			}
		}
	}
	return cls + " @ " + fr
}

func (o *poolOut) absorb(r *RunResult, cfg *poolCfg) {
	o.mu.Lock()
	defer o.mu.Unlock()
	o.runs++
	o.wallUS += r.WallUS
	for k, v := range r.Stats {
		o.stats[k] += v
	}
	o.sigs[r.Sig] = struct{}{}
	if r.Nontrivial {
		o.nontriv++
		o.sigsNT[r.Sig] = struct{}{}
	}
	if r.Viol != nil {
		o.found = append(o.found, found{Idx: r.Idx, V: *r.Viol, Tape: r.Tape, Trace: r.Trace})
		if len(o.found) >= 60 && o.cancel != nil {
			o.cancel() // enough to report; do not burn the budget on a tree that is plainly broken
		}
	} else if len(r.Trace) > 0 && len(o.samples) < 3 {
		c := *r
		c.Tape = nil
		o.samples = append(o.samples, c)
	}
}

// runPool runs the whole batch.
func runPool(cfg *poolCfg) *poolOut {
	out := &poolOut{stats: map[string]int64{}, sigs: map[uint64]struct{}{}, sigsNT: map[uint64]struct{}{}}
	ctx, cancel := context.WithCancel(context.Background())
	defer cancel()
	out.cancel = cancel
	var wg sync.WaitGroup
	const stride = uint64(1) << 32
	for w := 0; w < cfg.workers; w++ {
		wg.Add(1)
		go func(w int) {
			defer wg.Done()
			runWorker(ctx, cfg, out, w, uint64(w)*stride, cfg.runsPer)
		}(w)
	}
	wg.Wait()
	return out
}

// runOnce runs a single run (by index or by tape) in a fresh process and returns its outcome.
type onceOut struct {
	res    *RunResult
	races  []found
	crash  *found
	infra  string
	stderr string
}

func runOnce(cfg *poolCfg, idx uint64, tapeFile string, timeout time.Duration) *onceOut {
	o := &poolOut{stats: map[string]int64{}, sigs: map[uint64]struct{}{}, sigsNT: map[uint64]struct{}{}}
	c := *cfg
	c.deadline = timeout
	c.stallKill = timeout
	c.emitFirst = 0
	c.extra = append([]string(nil), cfg.extra...)
	c.extra = append(c.extra, "-emit")
	if cfg.trace {
		c.eng.envExtr = append(append([]string(nil), cfg.eng.envExtr...), "VERIF_TRACE_FAULTS=1")
	}
	if tapeFile != "" {
		c.extra = append(c.extra, "-replay", tapeFile)
	}
	var captured *RunResult
	ctx, cancel := context.WithTimeout(context.Background(), timeout+5*time.Second)
	defer cancel()
	_, _, crash := spawn(ctx, &c, o, 99, idx, 1, timeout, func(r *RunResult) { cp := *r; captured = &cp })
	out := &onceOut{res: captured, crash: crash}
	for _, f := range o.found {
		if f.V.Kind == "race" {
			out.races = append(out.races, f)
		}
	}
	if len(o.infraErrs) > 0 {
		out.infra = strings.Join(o.infraErrs, "; ")
	}
	return out
}
