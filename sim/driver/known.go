package main

import (
	"bufio"
	"os"
	"path/filepath"
	"strings"
)

// known_findings.txt lines:
//
//	known: property=C13 kind=<kind> site=<site> :: <what fails>
//	fixed: property=C13 <commit> <what failed>
//
// Only "known:" lines suppress anything, and only the exact (property, kind, site) they name.
type knownFinding struct {
	raw, property, kind, site, what string
}

type knownSet struct{ list []knownFinding }

func loadKnown() *knownSet {
	ks := &knownSet{}
	f, err := os.Open(filepath.Join(verifDir, "known_findings.txt"))
	if err != nil {
		return ks
	}
	defer f.Close()
	sc := bufio.NewScanner(f)
	for sc.Scan() {
		ln := strings.TrimSpace(sc.Text())
		if !strings.HasPrefix(ln, "known:") {
			continue
		}
		body := strings.TrimSpace(strings.TrimPrefix(ln, "known:"))
		what := ""
		if i := strings.Index(body, " :: "); i >= 0 {
			what = strings.TrimSpace(body[i+4:])
			body = body[:i]
		}
		k := knownFinding{raw: ln, what: what}
		// site may contain spaces: parse "property=.. kind=.. site=<rest>"
		if i := strings.Index(body, " site="); i >= 0 {
			k.site = strings.TrimSpace(body[i+6:])
			body = body[:i]
		}
		for _, f := range strings.Fields(body) {
			if strings.HasPrefix(f, "property=") {
				k.property = strings.TrimPrefix(f, "property=")
			}
			if strings.HasPrefix(f, "kind=") {
				k.kind = strings.TrimPrefix(f, "kind=")
			}
		}
		if k.property != "" && k.kind != "" && k.site != "" {
			ks.list = append(ks.list, k)
		}
	}
	return ks
}

func (ks *knownSet) match(property, kind, site string) *knownFinding {
	for i := range ks.list {
		k := &ks.list[i]
		if k.property == property && k.kind == kind && k.site == site {
			return k
		}
	}
	return nil
}
