package main

import (
	"fmt"
	"path/filepath"
	"sync"
	"sync/atomic"
	"time"
)

// minimise shrinks a failing tape while a fresh worker process keeps reporting the same
// (kind, site). Fresh process per candidate: a race report and a fatal abort are only observable
// per process. Tape-generic: truncate, delete chunks, zero blocks, halve entries.
func minimise(cfg *poolCfg, b *built, tape []uint32, want classKey, maxCand int, budget time.Duration) ([]uint32, *onceOut) {
	deadline := time.Now().Add(budget)
	var cand int64
	var seq int64
	test := func(t []uint32) *onceOut {
		if time.Now().After(deadline) || atomic.LoadInt64(&cand) >= int64(maxCand) {
			return nil
		}
		atomic.AddInt64(&cand, 1)
		n := atomic.AddInt64(&seq, 1)
		tf := filepath.Join(b.scratch, fmt.Sprintf("cand-%d.json", n))
		writeJSON(tf, map[string]any{"tape": t})
		o := runOnce(cfg, 0, tf, 60*time.Second)
		if hasClass(o, want) {
			return o
		}
		return nil
	}
	// batch: try candidates in parallel, return the first (lowest index) that still fails
	batch := func(cands [][]uint32) (int, *onceOut) {
		res := make([]*onceOut, len(cands))
		var wg sync.WaitGroup
		sem := make(chan struct{}, 12)
		for i := range cands {
			wg.Add(1)
			sem <- struct{}{}
			go func(i int) {
				defer wg.Done()
				defer func() { <-sem }()
				res[i] = test(cands[i])
			}(i)
		}
		wg.Wait()
		for i := range res {
			if res[i] != nil {
				return i, res[i]
			}
		}
		return -1, nil
	}
	cur := append([]uint32(nil), tape...)
	var best *onceOut
	// the starting tape must fail in a fresh process, otherwise nothing can be concluded
	if o := test(cur); o == nil {
		return tape, nil
	} else {
		best = o
	}
	// strip trailing zeros (replay past the end reads 0 anyway)
	for len(cur) > 0 && cur[len(cur)-1] == 0 {
		cur = cur[:len(cur)-1]
	}
	// pass: truncate the tail by binary search over lengths
	for {
		lo, hi := 0, len(cur)
		improved := false
		for lo < hi {
			var cands [][]uint32
			var lens []int
			// probe several lengths at once
			for k := 1; k <= 6; k++ {
				l := lo + (hi-lo)*k/7
				if l < hi && (len(lens) == 0 || l != lens[len(lens)-1]) {
					lens = append(lens, l)
					cands = append(cands, cur[:l])
				}
			}
			if len(cands) == 0 {
				break
			}
			i, o := batch(cands)
			if i < 0 {
				lo = lens[len(lens)-1] + 1
				continue
			}
			hi = lens[i]
			cur = cur[:hi]
			best = o
			improved = true
		}
		if !improved {
			break
		}
	}
	progress := true
	for progress && time.Now().Before(deadline) && atomic.LoadInt64(&cand) < int64(maxCand) {
		progress = false
		// delete chunks
		for sz := len(cur) / 2; sz >= 1; sz /= 2 {
			for {
				var cands [][]uint32
				var pos []int
				for p := 0; p+sz <= len(cur) && len(cands) < 24; p += sz {
					c := append(append([]uint32(nil), cur[:p]...), cur[p+sz:]...)
					cands = append(cands, c)
					pos = append(pos, p)
				}
				if len(cands) == 0 {
					break
				}
				i, o := batch(cands)
				if i < 0 {
					break
				}
				cur = cands[i]
				best = o
				progress = true
				_ = pos
			}
			if sz == 1 {
				break
			}
		}
		// zero blocks
		for sz := 8; sz >= 1; sz /= 2 {
			var cands [][]uint32
			for p := 0; p < len(cur) && len(cands) < 24; p += sz {
				nz := false
				c := append([]uint32(nil), cur...)
				for q := p; q < p+sz && q < len(c); q++ {
					if c[q] != 0 {
						nz = true
					}
					c[q] = 0
				}
				if nz {
					cands = append(cands, c)
				}
			}
			if len(cands) == 0 {
				continue
			}
			if i, o := batch(cands); i >= 0 {
				cur = cands[i]
				best = o
				progress = true
			}
		}
		// halve entries
		{
			var cands [][]uint32
			for p := 0; p < len(cur) && len(cands) < 24; p++ {
				if cur[p] > 1 {
					c := append([]uint32(nil), cur...)
					c[p] /= 2
					cands = append(cands, c)
				}
			}
			if len(cands) > 0 {
				if i, o := batch(cands); i >= 0 {
					cur = cands[i]
					best = o
					progress = true
				}
			}
		}
	}
	for len(cur) > 0 && cur[len(cur)-1] == 0 {
		cur = cur[:len(cur)-1]
	}
	return cur, best
}
