package main

import (
	"crypto/sha256"
	"fmt"
	"os"
	"os/exec"
	"strconv"
	"strings"
	"sync"
)

// doDeterminism: verif selftest-determinism <engine> [runs] [processes]
// Runs the same (seed, run range) in many processes at GOMAXPROCS 1, 4 and 16 and demands one
// identical digest of (signature, steps, switches, verdict) per run.
func doDeterminism(args []string) int {
	if len(args) < 1 {
		infra("selftest-determinism needs an engine")
	}
	engName := args[0]
	runs := uint64(40)
	procs := 10
	if len(args) > 1 {
		runs, _ = strconv.ParseUint(args[1], 10, 64)
	}
	if len(args) > 2 {
		procs, _ = strconv.Atoi(args[2])
	}
	race := engName == "c14"
	b := buildWorkers(race, !race)
	defer b.cleanup()
	bin := b.worker
	if race {
		bin = b.workerR
	}
	seed := envUint("VERIF_SEED", 1)
	digests := map[string]int{}
	var mu sync.Mutex
	var wg sync.WaitGroup
	sem := make(chan struct{}, 16)
	for _, gmp := range []int{1, 4, 16} {
		for p := 0; p < procs; p++ {
			wg.Add(1)
			sem <- struct{}{}
			go func(gmp int) {
				defer wg.Done()
				defer func() { <-sem }()
				cmd := exec.Command(bin, "-engine", engName, "-seed", fmt.Sprint(seed), "-start", "0", "-runs", fmt.Sprint(runs), "-sites", b.sites, "-digest")
				cmd.Env = append(os.Environ(), raceEnv(), fmt.Sprintf("GOMAXPROCS=%d", gmp))
				out, _ := cmd.Output()
				h := sha256.New()
				n := 0
				for _, ln := range strings.Split(string(out), "\n") {
					if strings.HasPrefix(ln, "DIGEST ") {
						h.Write([]byte(ln))
						n++
					}
				}
				d := fmt.Sprintf("%x/%d", h.Sum(nil)[:8], n)
				mu.Lock()
				digests[d]++
				mu.Unlock()
			}(gmp)
		}
	}
	wg.Wait()
	fmt.Printf("determinism %s: %d processes x %d runs, GOMAXPROCS 1/4/16: %d distinct digests %v\n", engName, 3*procs, runs, len(digests), digests)
	if len(digests) != 1 {
		return 1
	}
	return 0
}
