package main

import (
	"fmt"
	"os"
	"os/exec"
	"path/filepath"
	"strings"
	"time"

	"verifsim/instr"
)

// repoDir is /repo; VERIF_REPO overrides it only for background sweeps that must not see edits
// made to /repo while they run (registered checks never set it).
var repoDir = func() string {
	if v := os.Getenv("VERIF_REPO"); v != "" {
		return v
	}
	return "/repo"
}()

var (
	verifDir = selfDir()
	simDir   = filepath.Join(selfDir(), "sim")
)

// selfDir: the /verif tree this driver was started from (a `vp run` snapshot has its own copy).
func selfDir() string {
	if v := os.Getenv("VERIF_DIR"); v != "" {
		return v
	}
	return "/verif"
}

type built struct {
	scratch   string
	worker    string // native
	workerR   string // race build ("" if not requested)
	sites     string
	instr     *instr.Result
	buildSecs float64
}

func goEnv() []string {
	env := os.Environ()
	env = append(env, "GOFLAGS=-mod=mod", "GOPROXY=off", "GOSUMDB=off", "GOTOOLCHAIN=local", "CGO_ENABLED=1")
	return env
}

// infra prints an infrastructure failure and exits 2 (never a VIOLATION).
func infra(format string, a ...any) {
	fmt.Fprintf(os.Stderr, "verif: infrastructure failure: "+format+"\n", a...)
	os.Exit(2)
}

// buildWorkers instruments /repo/s2 as it is now and builds the worker(s) in a scratch dir outside
// /repo and /verif.
func buildWorkers(race, native bool) *built {
	t0 := time.Now()
	base := os.Getenv("VERIF_SCRATCH")
	if base == "" {
		base = os.TempDir()
	}
	scratch, err := os.MkdirTemp(base, "verif-work-")
	if err != nil {
		infra("mkdtemp: %v", err)
	}
	ov := filepath.Join(scratch, "ov")
	if err := os.MkdirAll(ov, 0o755); err != nil {
		infra("%v", err)
	}
	r, err := instr.Instrument(filepath.Join(repoDir, "s2"), ov, filepath.Join(repoDir, "s2"))
	if err != nil {
		os.RemoveAll(scratch)
		infra("cannot instrument /repo/s2: %v", err)
	}
	if len(r.Sites) == 0 {
		os.RemoveAll(scratch)
		infra("no scheduling site could be placed in /repo/s2")
	}
	// keep go.sum in step with the repository's
	if b, err := os.ReadFile(filepath.Join(repoDir, "go.sum")); err == nil {
		os.WriteFile(filepath.Join(simDir, "go.sum"), b, 0o644)
	}
	// a sweep against a snapshot of the repository: same module, different replace target
	modfile := ""
	if repoDir != "/repo" {
		gm, err := os.ReadFile(filepath.Join(simDir, "go.mod"))
		if err != nil {
			infra("%v", err)
		}
		modfile = filepath.Join(scratch, "go.mod")
		os.WriteFile(modfile, []byte(strings.Replace(string(gm), "=> /repo", "=> "+repoDir, 1)), 0o644)
		if sum, err := os.ReadFile(filepath.Join(repoDir, "go.sum")); err == nil {
			os.WriteFile(filepath.Join(scratch, "go.sum"), sum, 0o644)
		}
	}
	b := &built{scratch: scratch, sites: r.SitesPath, instr: r}
	build := func(out string, race bool) {
		args := []string{"build"}
		if race {
			args = append(args, "-race")
		}
		if modfile != "" {
			args = append(args, "-modfile="+modfile)
		}
		args = append(args, "-overlay", r.OverlayPath, "-o", out, "./worker")
		cmd := exec.Command("go", args...)
		cmd.Dir = simDir
		cmd.Env = goEnv()
		outb, err := cmd.CombinedOutput()
		if err != nil {
			os.RemoveAll(scratch)
			infra("go %s failed: %v\n%s", strings.Join(args, " "), err, outb)
		}
	}
	done := make(chan bool, 2)
	n := 0
	if native {
		b.worker = filepath.Join(scratch, "worker")
		n++
		go func() { build(b.worker, false); done <- true }()
	}
	if race {
		b.workerR = filepath.Join(scratch, "worker.race")
		n++
		go func() { build(b.workerR, true); done <- true }()
	}
	for i := 0; i < n; i++ {
		<-done
	}
	b.buildSecs = time.Since(t0).Seconds()
	return b
}

func (b *built) cleanup() {
	if b != nil && b.scratch != "" && os.Getenv("VERIF_KEEP_BUILD") != "" {
		fmt.Fprintln(os.Stderr, "verif: build kept in", b.scratch) // development aid
		return
	}
	if b != nil && b.scratch != "" {
		os.RemoveAll(b.scratch)
	}
}
