package main

import "time"

var realCode = []string{"all of github.com/golang/geo/s2, s1, r1, r2, r3 built from /repo's current working tree (instrumented copy via go build -overlay; same source lines)"}

func init() {
	specs["C14"] = &checkSpec{
		id:    "C14",
		level: "exploration",
		rule: "one evaluation = one simulated world (1-3 shared Loop/Polygon/ShapeIndex objects, index never built / built / stale) with 1-2 bursts of 2-6 real goroutines each issuing 1-6 read-only queries (up to 8 goroutines and 10 queries in the thorough tier; point/cell containment, loop/polygon relations, the three query types with their own query objects, cell walks, bounds, area/centroid/validation, encoding), executed under the one-runner scheduler on a schedule drawn from the choice tape (strategies: serial baseline, per-site-class random preemption, PCT priorities, single preemption). " +
			"A case is non-trivial when at least one preemption was actually injected; distinct = distinct hash of the sequence of (task, sync-site) events of all bursts. Oracles on every run: Go race detector (hand-off invisible to it), answers equal to a serial run on a clone (lazy or prebuilt index), deadlock/self-deadlock decided by the lock model, step-bounded progress after the last preemption, recovered panics, post-burst index cell list equal to the serial clone's.",
		explanation: "deterministic simulation of caller goroutines over real s2 code; seeded search over schedules",
		assumptions: []string{
			"sequentially consistent interleavings only: one task runs at a time, preemption only at instrumented sites (statements with sync calls, function entries of package s2); weak-memory effects are covered only as far as the happens-before race detector flags them",
			"the library does not start goroutines of its own and blocks only in sync.Mutex/RWMutex/Once (modelled); an unmodelled blocking primitive would surface as a stall, reported as infrastructure trouble",
			"Go map iteration order inside the library cannot be seeded; answers are compared as sets where the API returns a map",
			"the serial reference is the same library code run single-threaded on a clone: input-universal defects are invisible to this check",
		},
		real:  realCode,
		stubs: []string{"the goroutine scheduler (which task runs next) is the simulator's; nothing else is stubbed"},
		runs: []engineRun{{
			spec: engineSpec{name: "c14", race: true}, label: "c14-race",
			quickRuns: 900, quickDL: 70 * time.Second, thorRuns: 60000, thorDL: 28 * time.Minute,
			description: "race-detector build, schedules from the tape",
		}, {
			spec: engineSpec{name: "c14", race: true}, label: "c14-cold", extra: []string{"-cold"}, perProc: 1,
			quickRuns: 12, quickDL: 40 * time.Second, thorRuns: 400, thorDL: 10 * time.Minute,
			description: "one run per fresh worker process, burst first: state the library initialises on first use is first used by racing readers; the serial references are computed after the burst",
		}},
	}
	specs["C13"] = &checkSpec{
		id:    "C13",
		level: "exploration",
		rule: "one evaluation = one operation history (1-25 steps, 45 in the thorough tier, over 1-3 long-lived, overlapping objects: Add, Build, Reset, Invert, Normalize, encode-decode-continue, creation and reuse of EdgeQuery/CrossingEdgeQuery/ContainsPointQuery and of distance target objects, option changes on a live EdgeQuery, queries of every family with a per-run random mix, dense question sequences on freshly created query objects, recycled arguments) run as one simulated task under the lock model; every query answer is compared with the answer of the same query on fresh objects that reach the same state by mutations only (plus a new loop/polygon made from the current vertices, and inversions reduced mod 2). " +
			"Non-trivial = the history has at least two steps of at least two kinds and at least one query; distinct = distinct hash of the step sequence (kinds, objects, query kinds, reuse).",
		explanation: "refinement of long-lived objects against fresh-object reference; self-deadlock decided by the lock model",
		assumptions: []string{
			"the reference runs the same library code on fresh objects, so a defect that is wrong in the same way on fresh objects is invisible here; this check decides history dependence only",
			"answers that may legitimately depend on index cell structure (ContainsCell, IntersectsCell, region bounds, limited or approximate FindEdges) are compared only when subject and reference have identical cell lists; FindEdges with MaxError 0 is otherwise compared on distances",
			"ShapeIndex.Remove is not in the alphabet (the property's operation list does not name it and the code marks it unfinished)",
			"CrossingEdgeQuery and ContainsPointQuery objects are not reused after their index was mutated (they have no reset method); EdgeQuery objects are Reset() after a mutation as the API provides",
		},
		real:  realCode,
		stubs: []string{"none (single simulated task; the scheduler only supplies the lock model and the step bound)"},
		runs: []engineRun{{
			spec: engineSpec{name: "c13"}, label: "c13", faultFree: true,
			quickRuns: 8000, quickDL: 70 * time.Second, thorRuns: 400000, thorDL: 20 * time.Minute,
			description: "native build with lock model; histories from the tape",
		}},
	}
	streamStubs := []string{"the io.Reader / io.Writer handed to Decode / Encode is the simulated medium (simio): chunking, (n,EOF), (0,nil), ByteReader or not, failing reads/writes, stored-byte damage"}
	specs["C15"] = &checkSpec{
		id:    "C15",
		level: "fault_enumeration",
		rule: "corpus entries are valid encodings produced by the library's own encoders from seeded values of all nine encodable types (both polygon formats, snapped/unsnapped/mixed vertices, 0..many loops, empty/full). c15enum: for every corpus entry EVERY truncation length, single-bit flip, single-byte overwrite {00,7f,80,ff}, 4- and 8-byte little-endian and varint count forgery (2^31-1 .. 2^64-1) at every offset, and a hard read error at every offset, each under three reader shapes (io.ByteReader; plain reader delivering 1 byte per Read; file-like seekable reader with 7/3/64-byte reads). c15seq: seeded sequences of 1-6 mixed faults, random bytes, splices, loop-level re-assembly of lossless polygons (zero-vertex/empty/full loops inserted, loops duplicated/dropped/swapped, count off by one), cross-type decoding, under drawn chunking/EOF/zero-read/transient-error behaviour. " +
			"evaluations = decodes performed; distinct_nontrivial = distinct damaged byte strings (hash), summed per corpus entry for c15enum plus distinct (stream, reader) signatures for c15seq. Oracle: Decode returns; no panic; no fatal abort (workers run under an address-space cap, so an allocation for an unchecked count is an observable abort); no stall; a returned value survives containment, bounds, edge, cell and re-encode calls.",
		explanation: "fault enumeration on the stored bytes and the read stream of every Decode method, in capped worker processes",
		assumptions: []string{
			"'rejected before memory is allocated' is observed through the per-worker address-space cap (8 GiB, with the Go memory limit set to 3 GiB so that garbage from earlier within-limit decodes is collected instead of adding up): an allocation sized by a count beyond the documented limits aborts the worker, counts inside the limits may legitimately allocate up to about 2.5 GB",
			"a nil error together with a value different from the original is not a violation of this property and is only counted (decode_success_after_fault)",
			"a decode or use that makes no progress for 90 s of wall time is reported as a hang (normal cases take microseconds to seconds)",
		},
		real:  realCode,
		stubs: streamStubs,
		runs: []engineRun{
			{spec: engineSpec{name: "c15enum", memCap: 8 << 30, envExtr: []string{"GOMEMLIMIT=3GiB"}}, label: "c15enum", quickRuns: 2, quickDL: 50 * time.Second, thorRuns: 400, thorDL: 25 * time.Minute,
				description: "complete single-fault enumeration per corpus entry"},
			{spec: engineSpec{name: "c15seq", memCap: 8 << 30, envExtr: []string{"GOMEMLIMIT=3GiB"}}, label: "c15seq", quickRuns: 6000, quickDL: 25 * time.Second, thorRuns: 2000000, thorDL: 20 * time.Minute,
				description: "seeded multi-fault sequences, splices, random bytes, cross-type decoding"},
		},
	}
	specs["C09"] = &checkSpec{
		id:    "C09",
		level: "fault_enumeration",
		rule: "values of all nine encodable types come from a seeded workload generator steered at what the property names (polygons whose vertices are cell centres of one level, of mixed levels, partly snapped, unsnapped; near cube edges and corners; 0..many loops, holes, reversed loops). c09benign: Encode -> simulated medium -> Decode under three fixed reader shapes (ByteReader; 1 byte per Read; file-like seekable with reads straddling 4096) and one drawn benign behaviour (chunk sizes, (n,EOF), (0,nil), shape), and once into a receiver that already holds another value of the type: the decoded value must be bit-identical, answer a sample of queries identically, re-encode to identical bytes, and two encodings of one value must be identical. c09hard: for EVERY write call k of the encoding the k-th Write fails (permanent/transient x whole/short) and for EVERY byte offset the medium crashes: an Encode that returns nil must have stored exactly the fault-free bytes. " +
			"evaluations = decode round trips (benign) plus faulted encodes (hard); distinct_nontrivial = distinct encodings (hash) longer than 9 bytes / with at least two writes.",
		explanation: "the stream clause of the property is decided by fault enumeration on the write side and benign-behaviour enumeration on the read side; the value space is reached only by seeded workload generation, which is said plainly: it is not where simulation has leverage",
		assumptions: []string{
			"the quantifier over values is sampled, not enumerated; the generator is steered at the compressed/lossless choice, the off-centre list, face changes and extreme (si,ti), but a clean batch says nothing about values it did not draw",
			"bit-identical is judged on coordinates (Float64bits), vertex and loop order, nesting depth, origin-containment flag, bounds and hasHoles (read by reflection when the field exists)",
		},
		real:  realCode,
		stubs: streamStubs,
		runs: []engineRun{
			{spec: engineSpec{name: "c09benign"}, label: "c09benign", faultFree: true, quickRuns: 12000, quickDL: 40 * time.Second, thorRuns: 600000, thorDL: 15 * time.Minute,
				description: "fault-free and benign stream behaviour: nothing may differ"},
			{spec: engineSpec{name: "c09hard"}, label: "c09hard", quickRuns: 500, quickDL: 40 * time.Second, thorRuns: 20000, thorDL: 15 * time.Minute,
				description: "every write call fails in turn, every crash offset: no failed write is acknowledged"},
		},
	}
	specs["C03"] = &checkSpec{
		id:    "C03",
		level: "exploration",
		rule: "one evaluation = one crossing call inside a seeded call history (1-40 calls of CrossingSign, ChainCrossingSign, EdgeOrVertexCrossing, EdgeOrVertexChainCrossing, RestartAt on one to three EdgeCrossers that are alive at the same time and whose calls interleave, each constructed either way) over a pool of 3-8 points mixing general points, points exactly on a common great circle (determinant exactly zero), points a few ulps off it, near-duplicates, so that vertices repeat, equal A or B and chains revisit themselves. Each answer is compared with (1) the stateless function on a brand-new crosser and (2) the four-orientation criterion in exact rational arithmetic (library perturbation consulted only where a determinant is exactly zero), plus reversal/swap symmetry, and on every visited quadruple with shared vertices the vertex-crossing rule (invariant under reversing an edge; exactly one of VC(ab,cd), VC(cd,ab) when one vertex is shared; true for identical or reversed edges). " +
			"Non-trivial = a history with at least two calls of at least two kinds; distinct = hash of the call-kind sequence, pool size and first coordinates.",
		explanation: "history clause only: the crosser's cached state against a stateless model, the way a storage engine is checked against a map; no fault or schedule dimension exists for this type",
		assumptions: []string{
			"PARTIAL CLAIM: only the clause 'the incremental edge crosser gives, in any call order, the same answer as the stateless test' is decided. Exactness and symmetry are checked only on the quadruples the histories happen to visit; the universal statement over all quadruples and the vertex-crossing rule over all vertex configurations are pure functions of the input and are not claimed",
			"edges with antipodal endpoints are excluded (not defined)",
		},
		real:  realCode,
		stubs: []string{"none"},
		runs: []engineRun{{
			spec: engineSpec{name: "c03"}, label: "c03", faultFree: true,
			quickRuns: 40000, quickDL: 40 * time.Second, thorRuns: 1500000, thorDL: 10 * time.Minute,
			description: "call histories on one EdgeCrosser vs stateless and exact models",
		}},
	}
}
