package main

import (
	"bytes"
	"fmt"
	"runtime/debug"

	"github.com/golang/geo/s2"

	"verifsim/gen"
	"verifsim/simio"
)

func init() {
	register(&engine{name: "c09benign", tag: 91, run: runC09Benign})
	register(&engine{name: "c09hard", tag: 92, run: runC09Hard})
}

// guard runs f and turns a panic into a violation.
func guard(what string, f func()) (v *Violation) {
	defer func() {
		if x := recover(); x != nil {
			st := string(debug.Stack())
			v = &Violation{Kind: "panic", Site: what + ":" + panicSite(st), Detail: fmt.Sprintf("%s panicked: %v | %s", what, x, shortStack(st, 6))}
		}
	}()
	f()
	return nil
}

func describeValue(ct *codecType, v any) string {
	switch x := v.(type) {
	case *s2.Polygon:
		s := fmt.Sprintf("Polygon{%d loops:", x.NumLoops())
		for i := 0; i < x.NumLoops() && i < 8; i++ {
			s += fmt.Sprintf(" %dv", x.Loop(i).NumVertices())
		}
		return s + "}"
	case *s2.Loop:
		return fmt.Sprintf("Loop{%dv}", x.NumVertices())
	case s2.Polyline:
		return fmt.Sprintf("Polyline{%dv}", len(x))
	case s2.CellUnion:
		return fmt.Sprintf("CellUnion{%d}", len(x))
	}
	return ct.name
}

// snapStats reports how the vertices of a value relate to cell centres (what the polygon encoder's
// format choice depends on): number of exact cell-centre vertices, distinct levels.
func formatOf(enc []byte, ct *codecType) string {
	if ct.name != "Polygon" || len(enc) == 0 {
		return ""
	}
	switch enc[0] {
	case 1:
		return "lossless"
	case 4:
		return "compressed"
	}
	return fmt.Sprintf("version%d", enc[0])
}

// runC09Benign: Encode -> medium -> Decode under benign stream behaviour. Nothing may differ.
func runC09Benign(rc *runCtx) *RunResult {
	res := &RunResult{}
	g := gen.New()
	t := g.T
	ct := codecs[codecPick[t.Uint(uint32(len(codecPick)))]]
	var v any
	if pv := guard("draw:"+ct.name, func() { v = ct.draw(g) }); pv != nil {
		res.Viol = pv
		return res
	}
	pts, cells := usePoints(g, verticesOf(v))
	w1 := &simio.Writer{Plan: simio.NoWriteFaults()}
	var e1, e2 error
	var b2 bytes.Buffer
	if pv := guard("encode:"+ct.name, func() { e1 = ct.encode(v, w1); e2 = ct.encode(v, &b2) }); pv != nil {
		res.Viol = pv
		return res
	}
	if e1 != nil || e2 != nil {
		res.Viol = &Violation{Kind: "encode-error", Site: ct.name, Detail: fmt.Sprintf("Encode of a valid %s to a fault-free writer failed: %v %v", describeValue(ct, v), e1, e2)}
		return res
	}
	enc := w1.Data
	fm := formatOf(enc, ct)
	rc.inc("values_"+ct.name, 1)
	if fm != "" {
		rc.inc("polygon_format_"+fm, 1)
	}
	rc.inc("encoded_bytes", int64(len(enc)))
	rc.inc("write_calls", int64(w1.Calls))
	res.Sig = fnv(enc) ^ uint64(len(enc))<<36
	res.Nontrivial = len(enc) > 9
	rc.log("%s %s -> %d bytes in %d writes", describeValue(ct, v), fm, len(enc), w1.Calls)
	if !bytes.Equal(enc, b2.Bytes()) {
		res.Viol = &Violation{Kind: "encode-nondeterministic", Site: ct.name, Detail: fmt.Sprintf("encoding %s twice gave different bytes (%d vs %d bytes)", describeValue(ct, v), len(enc), b2.Len())}
		return res
	}
	// the original's answers
	var want Ans
	if pv := guard("use:"+ct.name, func() { want = ct.use(v, pts, cells) }); pv != nil {
		// the original value itself cannot be queried: not a codec matter
		rc.inc("skipped_original_unusable", 1)
		return res
	}
	// reader behaviours: always the two extreme shapes, plus a drawn one
	plans := []struct {
		br   int
		plan simio.ReadPlan
		name string
	}{
		{simio.ShapeByteReader, simio.NoReadFaults(), "bytereader"},
		{simio.ShapePlain, simio.ReadPlan{FailAt: -1, Chunks: []int{1}}, "plain-1byte"},
		{simio.ShapeFile, simio.ReadPlan{FailAt: -1, Chunks: []int{4093, 5, 4096}}, "file-like(seekable, chunks 4093/5/4096)"},
	}
	dp := simio.NoReadFaults()
	nc := 1 + int(t.Uint(5))
	for i := 0; i < nc; i++ {
		dp.Chunks = append(dp.Chunks, 1+int(t.Uint(13)))
	}
	dp.EOFWithData = t.Chance(500)
	if t.Chance(400) {
		dp.ZeroEvery = 2 + int(t.Uint(5))
	}
	dbr := int(t.Uint(simio.NumShapes))
	plans = append(plans, struct {
		br   int
		plan simio.ReadPlan
		name string
	}{dbr, dp, fmt.Sprintf("drawn(shape=%v chunks=%v eofWithData=%v zeroEvery=%d)", dbr, dp.Chunks, dp.EOFWithData, dp.ZeroEvery)})
	// a receiver that already holds another value of the type: Decode must replace it completely
	{
		var first any
		if pv := guard("draw:"+ct.name, func() { first = ct.draw(g) }); pv == nil {
			var fb bytes.Buffer
			if ct.encode(first, &fb) == nil {
				rc.inc("evals", 1)
				rc.inc("reused_receiver_decodes", 1)
				var dv any
				var derr error
				if pv := guard("decode-into-used-receiver:"+ct.name, func() {
					// the receiver is queried between the two decodes (lookup hints and lazily built
					// state of the first value must not survive into the second)
					mid := func(x any) { ct.use(x, pts, cells) }
					if t.Chance(300) {
						mid = nil
					}
					dv, derr = ct.decode2(simio.NewShapedReader(fb.Bytes(), simio.NoReadFaults(), simio.ShapeByteReader), simio.NewShapedReader(enc, simio.NoReadFaults(), simio.ShapeByteReader), mid)
				}); pv != nil {
					res.Viol = pv
					return res
				}
				if derr != nil {
					res.Viol = &Violation{Kind: "decode-error-benign", Site: ct.name + "/used-receiver", Detail: fmt.Sprintf("Decode of %s into a receiver that already held %s failed: %v", describeValue(ct, v), describeValue(ct, first), derr)}
					return res
				}
				if d := ct.equal(v, dv); d != "" {
					res.Viol = &Violation{Kind: "roundtrip-mismatch", Site: ct.name + fmtSuffix(fm) + "/used-receiver", Detail: fmt.Sprintf("%s %s decoded into a receiver that already held %s differs from the original: %s", describeValue(ct, v), fm, describeValue(ct, first), d)}
					return res
				}
				var got Ans
				if pv := guard("use-decoded:"+ct.name, func() { got = ct.use(dv, pts, cells) }); pv != nil {
					res.Viol = pv
					return res
				}
				if !eqAns(want, got) {
					res.Viol = &Violation{Kind: "roundtrip-answers-differ", Site: ct.name + fmtSuffix(fm) + "/used-receiver", Detail: fmt.Sprintf("%s %s decoded into a receiver that already held %s: queries answer differently from the original (first difference at answer word %d)", describeValue(ct, v), fm, describeValue(ct, first), firstDiff(want, got))}
					return res
				}
			}
		}
	}
	for _, pl := range plans {
		rc.inc("evals", 1)
		if pl.plan.EOFWithData {
			rc.inc("reader_eof_with_data", 1)
		}
		if pl.plan.ZeroEvery > 0 {
			rc.inc("reader_zero_reads", 1)
		}
		if len(pl.plan.Chunks) > 0 {
			rc.inc("reader_chunked", 1)
		}
		var dv any
		var derr error
		if pv := guard("decode:"+ct.name, func() { dv, derr = ct.decode(simio.NewShapedReader(enc, pl.plan, pl.br)) }); pv != nil {
			res.Viol = pv
			return res
		}
		if derr != nil {
			res.Viol = &Violation{Kind: "decode-error-benign", Site: ct.name, Detail: fmt.Sprintf("Decode of the fault-free encoding of %s failed under benign reader %s: %v", describeValue(ct, v), pl.name, derr)}
			return res
		}
		if d := ct.equal(v, dv); d != "" {
			res.Viol = &Violation{Kind: "roundtrip-mismatch", Site: ct.name + fmtSuffix(fm), Detail: fmt.Sprintf("%s %s (%d bytes) decoded under reader %s differs from the original: %s", describeValue(ct, v), fm, len(enc), pl.name, d)}
			return res
		}
		var got Ans
		if pv := guard("use-decoded:"+ct.name, func() { got = ct.use(dv, pts, cells) }); pv != nil {
			res.Viol = pv
			return res
		}
		if !eqAns(want, got) {
			res.Viol = &Violation{Kind: "roundtrip-answers-differ", Site: ct.name + fmtSuffix(fm), Detail: fmt.Sprintf("%s %s: queries on the decoded value answer differently from the original (first difference at answer word %d)", describeValue(ct, v), fm, firstDiff(want, got))}
			return res
		}
		var rb bytes.Buffer
		if err := ct.encode(dv, &rb); err != nil || !bytes.Equal(rb.Bytes(), enc) {
			res.Viol = &Violation{Kind: "reencode-differs", Site: ct.name + fmtSuffix(fm), Detail: fmt.Sprintf("%s %s: re-encoding the decoded value gives %d bytes (err=%v), original encoding has %d; first differing byte %d", describeValue(ct, v), fm, rb.Len(), err, len(enc), firstDiffBytes(rb.Bytes(), enc))}
			return res
		}
	}
	// the value after an in-place mutation is a value too: its encoding must decode to it (an
	// encoder that remembers something about the value from the previous Encode fails here)
	if t.Chance(400) {
		var mutated any
		switch x := v.(type) {
		case *s2.Loop:
			x.Invert()
			mutated = x
		case *s2.Polygon:
			x.Invert()
			mutated = x
		}
		if mutated != nil {
			rc.inc("evals", 1)
			rc.inc("encode_after_invert", 1)
			var mb bytes.Buffer
			var dv any
			var derr, eerr error
			if pv := guard("encode-decode-after-invert:"+ct.name, func() {
				eerr = ct.encode(mutated, &mb)
				if eerr == nil {
					dv, derr = ct.decode(simio.NewShapedReader(mb.Bytes(), simio.NoReadFaults(), simio.ShapeByteReader))
				}
			}); pv != nil {
				res.Viol = pv
				return res
			}
			if eerr != nil || derr != nil {
				res.Viol = &Violation{Kind: "decode-error-benign", Site: ct.name + "/after-invert", Detail: fmt.Sprintf("encode (%v) / decode (%v) of %s after Invert failed", eerr, derr, describeValue(ct, v))}
				return res
			}
			// (bounds are not compared here: the bound of an inverted loop is allowed to be loose, and
			// the compressed format recomputes it on decode)
			if d := equalNoBounds(mutated, dv); d != "" {
				res.Viol = &Violation{Kind: "roundtrip-mismatch", Site: ct.name + fmtSuffix(formatOf(mb.Bytes(), ct)) + "/after-invert", Detail: fmt.Sprintf("%s was encoded, inverted in place and encoded again; decoding the second encoding does not give the inverted value: %s", describeValue(ct, v), d)}
				return res
			}
		}
	}
	return res
}

func fmtSuffix(fm string) string {
	if fm == "" {
		return ""
	}
	return "/" + fm
}

func firstDiff(a, b Ans) int {
	for i := 0; i < len(a) && i < len(b); i++ {
		if a[i] != b[i] {
			return i
		}
	}
	return imin2(len(a), len(b))
}

func firstDiffBytes(a, b []byte) int {
	for i := 0; i < len(a) && i < len(b); i++ {
		if a[i] != b[i] {
			return i
		}
	}
	return imin2(len(a), len(b))
}

// runC09Hard: the k-th Write of Encode fails, for every k; crash after b bytes, for every b.
// An Encode that returns nil must have put a decodable, identical value on the medium.
func runC09Hard(rc *runCtx) *RunResult {
	res := &RunResult{}
	g := gen.New()
	g.Small = true
	t := g.T
	ct := codecs[codecPick[t.Uint(uint32(len(codecPick)))]]
	var v any
	if pv := guard("draw:"+ct.name, func() { v = ct.draw(g) }); pv != nil {
		res.Viol = pv
		return res
	}
	w0 := &simio.Writer{Plan: simio.NoWriteFaults()}
	if err := ct.encode(v, w0); err != nil {
		res.Viol = &Violation{Kind: "encode-error", Site: ct.name, Detail: "Encode to a fault-free writer failed: " + err.Error()}
		return res
	}
	good := w0.Data
	nw := w0.Calls
	// (this process has just been through many failed encodes of other values: the fault-free
	// encoding must still be right)
	{
		var dv any
		var derr error
		if pv := guard("decode:"+ct.name, func() { dv, derr = ct.decode(simio.NewShapedReader(good, simio.NoReadFaults(), simio.ShapeByteReader)) }); pv != nil {
			res.Viol = pv
			return res
		}
		if derr != nil {
			res.Viol = &Violation{Kind: "decode-error-benign", Site: ct.name + "/after-failed-encodes", Detail: fmt.Sprintf("the fault-free encoding of %s (made after earlier encodes in this process had failed) does not decode: %v", describeValue(ct, v), derr)}
			return res
		}
		if d := ct.equal(v, dv); d != "" {
			res.Viol = &Violation{Kind: "roundtrip-mismatch", Site: ct.name + "/after-failed-encodes", Detail: fmt.Sprintf("the fault-free encoding of %s (made after earlier encodes in this process had failed) decodes to a different value: %s", describeValue(ct, v), d)}
			return res
		}
	}
	res.Sig = fnv(good) ^ uint64(nw)<<40
	res.Nontrivial = nw >= 2
	rc.inc("values_"+ct.name, 1)
	rc.inc("write_calls", int64(nw))
	rc.log("%s -> %d bytes in %d writes; failing each write in turn (transient/permanent, short/whole), crashing after each byte", describeValue(ct, v), len(good), nw)
	check := func(plan simio.WritePlan, what string) bool {
		rc.inc("evals", 1)
		w := &simio.Writer{Plan: plan}
		var err error
		if pv := guard("encode:"+ct.name, func() { err = ct.encode(v, w) }); pv != nil {
			res.Viol = pv
			return false
		}
		if w.Failed > 0 {
			rc.inc("write_faults_fired", int64(w.Failed))
		}
		if err != nil {
			rc.inc("outcome_encode_error", 1)
			return true
		}
		rc.inc("outcome_encode_ok", 1)
		if w.Failed == 0 {
			return true // the fault did not fire (fewer writes than planned)
		}
		// acknowledged although a write failed: the medium must nevertheless hold the value
		if !bytes.Equal(w.Data, good) {
			res.Viol = &Violation{Kind: "ack-after-failed-write", Site: ct.name,
				Detail: fmt.Sprintf("Encode of %s returned nil although %s; the medium holds %d bytes that differ from the fault-free encoding (%d bytes) at byte %d", describeValue(ct, v), what, len(w.Data), len(good), firstDiffBytes(w.Data, good))}
			return false
		}
		return true
	}
	for k := 0; k < nw; k++ {
		for _, tr := range []bool{false, true} {
			for _, sh := range []bool{false, true} {
				err := simio.ErrIO
				if k%2 == 1 {
					err = simio.ErrNoSpc
				}
				kind := "permanent"
				if tr {
					kind = "transient"
					rc.inc("fault_write_transient", 1)
				} else {
					rc.inc("fault_write_permanent", 1)
				}
				if !check(simio.WritePlan{FailCall: k, Transient: tr, Short: sh, Err: err, CrashAt: -1}, fmt.Sprintf("write call %d of %d failed (%s, short=%v, %v)", k, nw, kind, sh, err)) {
					return res
				}
			}
		}
	}
	for b := 0; b < len(good); b++ {
		rc.inc("fault_crash", 1)
		if !check(simio.WritePlan{FailCall: -1, CrashAt: b}, fmt.Sprintf("the medium crashed after %d of %d bytes", b, len(good))) {
			return res
		}
	}
	// after all those failures a fault-free encode must still produce the same bytes
	wl := &simio.Writer{Plan: simio.NoWriteFaults()}
	if err := ct.encode(v, wl); err != nil || !bytes.Equal(wl.Data, good) {
		res.Viol = &Violation{Kind: "encode-nondeterministic", Site: ct.name + "/after-failed-encodes", Detail: fmt.Sprintf("after %d failed encodes of %s a fault-free Encode gives err=%v and %d bytes that differ from the first fault-free encoding (%d bytes) at byte %d", nw*4+len(good), describeValue(ct, v), err, len(wl.Data), len(good), firstDiffBytes(wl.Data, good))}
		return res
	}
	return res
}

// equalNoBounds: bit-identical vertices, order, depths and origin flags; bounds ignored.
func equalNoBounds(a, b any) string {
	switch x := a.(type) {
	case *s2.Loop:
		return eqLoop(x, b.(*s2.Loop), false)
	case *s2.Polygon:
		y := b.(*s2.Polygon)
		if x.NumLoops() != y.NumLoops() {
			return fmt.Sprintf("loop count %d != %d", x.NumLoops(), y.NumLoops())
		}
		for i := 0; i < x.NumLoops(); i++ {
			if s := eqLoop(x.Loop(i), y.Loop(i), false); s != "" {
				return fmt.Sprintf("loop %d: %s", i, s)
			}
		}
	}
	return ""
}
