package main

import (
	"bytes"
	"fmt"
	"io"
	"math"
	"reflect"
	"unsafe"

	"github.com/golang/geo/r1"
	"github.com/golang/geo/s1"
	"github.com/golang/geo/s2"

	"verifsim/gen"
)

// codecType describes one encodable type for the stream engines (C15, C09).
type codecType struct {
	name   string
	draw   func(g *gen.G) any
	encode func(v any, w io.Writer) error
	decode func(r io.Reader) (any, error)
	// decode2 decodes r1 and then r2 into the SAME receiver and returns what the receiver holds
	// after the second Decode (a receiver that already holds a value must end up holding exactly
	// the second one)
	decode2 func(r1, r2 io.Reader, mid func(any)) (any, error)
	equal   func(a, b any) string // "" when bit-identical, else what differs
	use     func(v any, pts []s2.Point, cells []s2.Cell) Ans
}

func f64(x float64) uint64 { return math.Float64bits(x) }

func eqPoint(a, b s2.Point) bool {
	return f64(a.X) == f64(b.X) && f64(a.Y) == f64(b.Y) && f64(a.Z) == f64(b.Z)
}

func eqPoints(a, b []s2.Point) string {
	if len(a) != len(b) {
		return fmt.Sprintf("vertex count %d != %d", len(a), len(b))
	}
	for i := range a {
		if !eqPoint(a[i], b[i]) {
			return fmt.Sprintf("vertex %d differs: %v != %v", i, a[i], b[i])
		}
	}
	return ""
}

func eqRect(a, b s2.Rect) bool {
	return f64(a.Lat.Lo) == f64(b.Lat.Lo) && f64(a.Lat.Hi) == f64(b.Lat.Hi) && f64(a.Lng.Lo) == f64(b.Lng.Lo) && f64(a.Lng.Hi) == f64(b.Lng.Hi)
}

// intField reads an unexported int field by name (ok=false if the field does not exist).
func intField(v any, name string) (int, bool) {
	rv := reflect.ValueOf(v)
	if rv.Kind() == reflect.Ptr {
		rv = rv.Elem()
	}
	if rv.Kind() != reflect.Struct {
		return 0, false
	}
	f := rv.FieldByName(name)
	if !f.IsValid() || f.Kind() != reflect.Int || !f.CanAddr() {
		return 0, false
	}
	return *(*int)(unsafe.Pointer(f.UnsafeAddr())), true
}

func loopDepth(l *s2.Loop) int {
	if d, ok := intField(l, "depth"); ok {
		return d
	}
	if l.IsHole() {
		return 1
	}
	return 0
}

func eqLoop(a, b *s2.Loop, bounds bool) string {
	if s := eqPoints(a.Vertices(), b.Vertices()); s != "" {
		return s
	}
	if a.ContainsOrigin() != b.ContainsOrigin() {
		return "origin-containment flag differs"
	}
	if loopDepth(a) != loopDepth(b) {
		return fmt.Sprintf("depth %d != %d", loopDepth(a), loopDepth(b))
	}
	if bounds && !eqRect(a.RectBound(), b.RectBound()) {
		return fmt.Sprintf("bound differs: %v != %v", a.RectBound(), b.RectBound())
	}
	return ""
}

func usePoints(g *gen.G, around []s2.Point) ([]s2.Point, []s2.Cell) {
	var pts []s2.Point
	var cells []s2.Cell
	for i := 0; i < 3; i++ {
		pts = append(pts, g.Point())
	}
	for i := 0; i < 3 && i < len(around); i++ {
		pts = append(pts, around[(i*7)%len(around)])
		pts = append(pts, g.PointNear(around[(i*5)%len(around)], 0.05))
	}
	for i := 0; i < 2; i++ {
		cells = append(cells, g.Cell())
	}
	if len(around) > 0 {
		cells = append(cells, g.CellNear(around[0], 0.1))
	}
	return pts, cells
}

const useEdgeCap = 3000

func useLoop(l *s2.Loop, pts []s2.Point, cells []s2.Cell) Ans {
	var a Ans
	n := l.NumEdges()
	a = append(a, uint64(n), uint64(l.NumVertices()))
	for i := 0; i < n && i < useEdgeCap; i++ {
		e := l.Edge(i)
		a = append(a, f64(e.V0.X)^f64(e.V1.Z))
	}
	for c := 0; c < l.NumChains(); c++ {
		ch := l.Chain(c)
		a = append(a, uint64(ch.Start), uint64(ch.Length))
		if ch.Length > 0 {
			e := l.ChainEdge(c, 0)
			a = append(a, f64(e.V0.Y))
		}
	}
	if n > 0 {
		cp := l.ChainPosition(n - 1)
		a = append(a, uint64(cp.ChainID), uint64(cp.Offset))
	}
	for _, p := range pts {
		a = append(a, b2u(l.ContainsPoint(p)))
	}
	rb := l.RectBound()
	a = append(a, f64(rb.Lat.Lo), f64(rb.Lng.Hi))
	cb := l.CapBound()
	a = append(a, f64(float64(cb.Radius())))
	for _, c := range cells {
		a = append(a, b2u(l.ContainsCell(c)), b2u(l.IntersectsCell(c)))
	}
	a = append(a, b2u(l.IsEmpty()), b2u(l.IsFull()))
	// Measures (Area, Centroid) and loop-to-loop relations are NOT part of this use: the property
	// lists containment, bounds, edges and re-encoding, and the zero value Loop{} (which Decode
	// accepts and reproduces) divides by zero in those methods with or without a Decode.
	a = append(a, f64(l.TurningAngle()), b2u(l.IsNormalized()))
	var buf bytes.Buffer
	_ = l.Encode(&buf)
	a = append(a, uint64(buf.Len()))
	return a
}

func usePolygon(p *s2.Polygon, pts []s2.Point, cells []s2.Cell) Ans {
	var a Ans
	n := p.NumEdges()
	a = append(a, uint64(n), uint64(p.NumLoops()))
	for i := 0; i < n && i < useEdgeCap; i++ {
		e := p.Edge(i)
		a = append(a, f64(e.V0.X)^f64(e.V1.Z))
	}
	for i := 0; i < p.NumLoops() && i < 200; i++ {
		a = append(a, uint64(p.Loop(i).NumVertices()), b2u(p.Loop(i).IsHole()))
		_, _ = p.Parent(i)
		_ = p.LastDescendant(i)
	}
	for c := 0; c < p.NumChains() && c < 200; c++ {
		ch := p.Chain(c)
		a = append(a, uint64(ch.Start), uint64(ch.Length))
		if ch.Length > 0 {
			e := p.ChainEdge(c, 0)
			a = append(a, f64(e.V0.Y))
		}
	}
	for i := 0; i < n && i < useEdgeCap; i += 1 + n/16 {
		cp := p.ChainPosition(i)
		a = append(a, uint64(cp.ChainID), uint64(cp.Offset))
	}
	for _, q := range pts {
		a = append(a, b2u(p.ContainsPoint(q)))
	}
	rb := p.RectBound()
	a = append(a, f64(rb.Lat.Lo), f64(rb.Lng.Hi))
	cb := p.CapBound()
	a = append(a, f64(float64(cb.Radius())))
	for _, c := range cells {
		a = append(a, b2u(p.ContainsCell(c)), b2u(p.IntersectsCell(c)))
	}
	a = append(a, b2u(p.IsEmpty()), b2u(p.IsFull()))
	var buf bytes.Buffer
	_ = p.Encode(&buf)
	a = append(a, uint64(buf.Len()))
	return a
}

var codecs = []*codecType{
	{
		name:   "Point",
		draw:   func(g *gen.G) any { return g.Point() },
		encode: func(v any, w io.Writer) error { return v.(s2.Point).Encode(w) },
		decode: func(r io.Reader) (any, error) { var p s2.Point; err := p.Decode(r); return p, err },
		decode2: func(r1, r2 io.Reader, mid func(any)) (any, error) {
			var p s2.Point
			if p.Decode(r1) == nil && mid != nil {
				mid(p)
			}
			err := p.Decode(r2)
			return p, err
		},
		equal: func(a, b any) string {
			if !eqPoint(a.(s2.Point), b.(s2.Point)) {
				return "coordinates differ"
			}
			return ""
		},
		use: func(v any, pts []s2.Point, cells []s2.Cell) Ans {
			p := v.(s2.Point)
			a := Ans{f64(p.X), f64(p.Y), f64(p.Z)}
			for _, q := range pts {
				a = append(a, f64(float64(p.Distance(q))))
			}
			a = append(a, b2u(p.ContainsPoint(p)), f64(float64(p.CapBound().Radius())))
			_ = p.RectBound()
			var buf bytes.Buffer
			_ = p.Encode(&buf)
			return a
		},
	},
	{
		name: "Cap",
		draw: func(g *gen.G) any {
			t := g.T
			switch t.Uint(8) {
			case 0:
				return s2.EmptyCap()
			case 1:
				return s2.FullCap()
			}
			return s2.CapFromCenterAngle(g.Point(), s1.Angle(t.Float()*math.Pi))
		},
		encode: func(v any, w io.Writer) error { return v.(s2.Cap).Encode(w) },
		decode: func(r io.Reader) (any, error) { var c s2.Cap; err := c.Decode(r); return c, err },
		decode2: func(r1, r2 io.Reader, mid func(any)) (any, error) {
			var c s2.Cap
			if c.Decode(r1) == nil && mid != nil {
				mid(c)
			}
			err := c.Decode(r2)
			return c, err
		},
		equal: func(a, b any) string {
			x, y := a.(s2.Cap), b.(s2.Cap)
			if !eqPoint(x.Center(), y.Center()) || f64(float64(x.Radius())) != f64(float64(y.Radius())) || f64(x.Height()) != f64(y.Height()) {
				return "cap centre/radius differ"
			}
			return ""
		},
		use: func(v any, pts []s2.Point, cells []s2.Cell) Ans {
			c := v.(s2.Cap)
			var a Ans
			for _, q := range pts {
				a = append(a, b2u(c.ContainsPoint(q)))
			}
			rb := c.RectBound()
			a = append(a, f64(rb.Lat.Lo), f64(rb.Lng.Hi), f64(c.Area()))
			for _, cell := range cells {
				a = append(a, b2u(c.ContainsCell(cell)), b2u(c.IntersectsCell(cell)))
			}
			a = append(a, uint64(len(c.CellUnionBound())))
			var buf bytes.Buffer
			_ = c.Encode(&buf)
			return a
		},
	},
	{
		name: "Rect",
		draw: func(g *gen.G) any {
			t := g.T
			switch t.Uint(8) {
			case 0:
				return s2.EmptyRect()
			case 1:
				return s2.FullRect()
			}
			la, lb := (t.Float()-0.5)*math.Pi, (t.Float()-0.5)*math.Pi
			if la > lb {
				la, lb = lb, la
			}
			return s2.Rect{Lat: r1.Interval{Lo: la, Hi: lb}, Lng: s1.IntervalFromEndpoints((t.Float()-0.5)*2*math.Pi, (t.Float()-0.5)*2*math.Pi)}
		},
		encode: func(v any, w io.Writer) error { return v.(s2.Rect).Encode(w) },
		decode: func(r io.Reader) (any, error) { var x s2.Rect; err := x.Decode(r); return x, err },
		decode2: func(r1, r2 io.Reader, mid func(any)) (any, error) {
			var x s2.Rect
			if x.Decode(r1) == nil && mid != nil {
				mid(x)
			}
			err := x.Decode(r2)
			return x, err
		},
		equal: func(a, b any) string {
			if !eqRect(a.(s2.Rect), b.(s2.Rect)) {
				return "rect bounds differ"
			}
			return ""
		},
		use: func(v any, pts []s2.Point, cells []s2.Cell) Ans {
			r := v.(s2.Rect)
			var a Ans
			for _, q := range pts {
				a = append(a, b2u(r.ContainsPoint(q)))
			}
			a = append(a, f64(r.Area()), f64(float64(r.CapBound().Radius())), b2u(r.IsValid()))
			for _, cell := range cells {
				a = append(a, b2u(r.ContainsCell(cell)), b2u(r.IntersectsCell(cell)))
			}
			for i := 0; i < 4; i++ {
				a = append(a, f64(float64(r.Vertex(i).Lat)))
			}
			var buf bytes.Buffer
			_ = r.Encode(&buf)
			return a
		},
	},
	{
		name:   "CellID",
		draw:   func(g *gen.G) any { return g.Cell().ID() },
		encode: func(v any, w io.Writer) error { return v.(s2.CellID).Encode(w) },
		decode: func(r io.Reader) (any, error) { var x s2.CellID; err := x.Decode(r); return x, err },
		decode2: func(r1, r2 io.Reader, mid func(any)) (any, error) {
			var x s2.CellID
			if x.Decode(r1) == nil && mid != nil {
				mid(x)
			}
			err := x.Decode(r2)
			return x, err
		},
		equal: func(a, b any) string {
			if a.(s2.CellID) != b.(s2.CellID) {
				return "cell id differs"
			}
			return ""
		},
		use: func(v any, pts []s2.Point, cells []s2.Cell) Ans {
			id := v.(s2.CellID)
			a := Ans{uint64(id), b2u(id.IsValid())}
			_ = id.ToToken()
			_ = id.String()
			var buf bytes.Buffer
			_ = id.Encode(&buf)
			return a
		},
	},
	{
		name:   "Cell",
		draw:   func(g *gen.G) any { return g.Cell() },
		encode: func(v any, w io.Writer) error { return v.(s2.Cell).Encode(w) },
		decode: func(r io.Reader) (any, error) { var x s2.Cell; err := x.Decode(r); return x, err },
		decode2: func(r1, r2 io.Reader, mid func(any)) (any, error) {
			var x s2.Cell
			if x.Decode(r1) == nil && mid != nil {
				mid(x)
			}
			err := x.Decode(r2)
			return x, err
		},
		equal: func(a, b any) string {
			x, y := a.(s2.Cell), b.(s2.Cell)
			if x != y {
				return "cell differs"
			}
			return ""
		},
		use: func(v any, pts []s2.Point, cells []s2.Cell) Ans {
			c := v.(s2.Cell)
			a := Ans{uint64(c.ID()), uint64(c.Level()), uint64(c.Face())}
			for _, q := range pts {
				a = append(a, b2u(c.ContainsPoint(q)))
			}
			rb := c.RectBound()
			a = append(a, f64(rb.Lat.Lo), f64(float64(c.CapBound().Radius())))
			for i := 0; i < 4; i++ {
				a = append(a, f64(c.Vertex(i).X), f64(c.Edge(i).Y))
			}
			for _, o := range cells {
				a = append(a, b2u(c.ContainsCell(o)), b2u(c.IntersectsCell(o)))
			}
			var buf bytes.Buffer
			_ = c.Encode(&buf)
			return a
		},
	},
	{
		name: "CellUnion",
		draw: func(g *gen.G) any {
			t := g.T
			n := int(t.Uint(12))
			cu := make(s2.CellUnion, 0, n)
			for i := 0; i < n; i++ {
				cu = append(cu, g.Cell().ID())
			}
			if t.Chance(700) {
				cu.Normalize()
			}
			return cu
		},
		encode: func(v any, w io.Writer) error { cu := v.(s2.CellUnion); return cu.Encode(w) },
		decode: func(r io.Reader) (any, error) { var x s2.CellUnion; err := x.Decode(r); return x, err },
		decode2: func(r1, r2 io.Reader, mid func(any)) (any, error) {
			var x s2.CellUnion
			if x.Decode(r1) == nil && mid != nil {
				mid(x)
			}
			err := x.Decode(r2)
			return x, err
		},
		equal: func(a, b any) string {
			x, y := a.(s2.CellUnion), b.(s2.CellUnion)
			if len(x) != len(y) {
				return fmt.Sprintf("length %d != %d", len(x), len(y))
			}
			for i := range x {
				if x[i] != y[i] {
					return fmt.Sprintf("cell %d differs", i)
				}
			}
			return ""
		},
		use: func(v any, pts []s2.Point, cells []s2.Cell) Ans {
			cu := v.(s2.CellUnion)
			a := Ans{uint64(len(cu)), b2u(cu.IsValid())}
			if len(cu) > 20000 {
				return a // decoded from a forged (but within-limit) count: nothing more to learn
			}
			cp := append(s2.CellUnion(nil), cu...)
			cp.Normalize()
			a = append(a, uint64(len(cp)))
			for _, q := range pts {
				a = append(a, b2u(cu.ContainsPoint(q)))
			}
			rb := cu.RectBound()
			a = append(a, f64(rb.Lat.Lo), f64(float64(cu.CapBound().Radius())))
			for _, o := range cells {
				a = append(a, b2u(cu.ContainsCell(o)), b2u(cu.IntersectsCell(o)))
			}
			var buf bytes.Buffer
			_ = cu.Encode(&buf)
			return a
		},
	},
	{
		name: "Polyline",
		draw: func(g *gen.G) any {
			d := g.PolylineDesc(60)
			return s2.Polyline(d.Pts)
		},
		encode: func(v any, w io.Writer) error { return v.(s2.Polyline).Encode(w) },
		decode: func(r io.Reader) (any, error) { var x s2.Polyline; err := x.Decode(r); return x, err },
		decode2: func(r1, r2 io.Reader, mid func(any)) (any, error) {
			var x s2.Polyline
			if x.Decode(r1) == nil && mid != nil {
				mid(x)
			}
			err := x.Decode(r2)
			return x, err
		},
		equal: func(a, b any) string { return eqPoints(a.(s2.Polyline), b.(s2.Polyline)) },
		use: func(v any, pts []s2.Point, cells []s2.Cell) Ans {
			p := v.(s2.Polyline)
			a := Ans{uint64(len(p))}
			if len(p) > 200000 {
				return a
			}
			n := p.NumEdges()
			for i := 0; i < n && i < useEdgeCap; i++ {
				e := p.Edge(i)
				a = append(a, f64(e.V0.X)^f64(e.V1.Z))
			}
			rb := p.RectBound()
			a = append(a, f64(rb.Lat.Lo), f64(float64(p.CapBound().Radius())), f64(float64(p.Length())))
			for _, o := range cells {
				a = append(a, b2u(p.IntersectsCell(o)))
			}
			var buf bytes.Buffer
			_ = p.Encode(&buf)
			return a
		},
	},
	{
		name: "Loop",
		draw: func(g *gen.G) any {
			d := g.CodecLoopDesc()
			return d.BuildLoop()
		},
		encode: func(v any, w io.Writer) error { return v.(*s2.Loop).Encode(w) },
		decode: func(r io.Reader) (any, error) { x := new(s2.Loop); err := x.Decode(r); return x, err },
		decode2: func(r1, r2 io.Reader, mid func(any)) (any, error) {
			x := new(s2.Loop)
			if x.Decode(r1) == nil && mid != nil {
				mid(x)
			}
			err := x.Decode(r2)
			return x, err
		},
		equal: func(a, b any) string { return eqLoop(a.(*s2.Loop), b.(*s2.Loop), true) },
		use: func(v any, pts []s2.Point, cells []s2.Cell) Ans {
			l := v.(*s2.Loop)
			if l.NumVertices() > 200000 {
				return Ans{uint64(l.NumVertices())}
			}
			return useLoop(l, pts, cells)
		},
	},
	{
		name: "Polygon",
		draw: func(g *gen.G) any {
			d := g.CodecPolygonDesc()
			return d.BuildPolygon()
		},
		encode: func(v any, w io.Writer) error { return v.(*s2.Polygon).Encode(w) },
		decode: func(r io.Reader) (any, error) { x := new(s2.Polygon); err := x.Decode(r); return x, err },
		decode2: func(r1, r2 io.Reader, mid func(any)) (any, error) {
			x := new(s2.Polygon)
			if x.Decode(r1) == nil && mid != nil {
				mid(x)
			}
			err := x.Decode(r2)
			return x, err
		},
		equal: func(a, b any) string {
			x, y := a.(*s2.Polygon), b.(*s2.Polygon)
			if x.NumLoops() != y.NumLoops() {
				return fmt.Sprintf("loop count %d != %d", x.NumLoops(), y.NumLoops())
			}
			for i := 0; i < x.NumLoops(); i++ {
				if s := eqLoop(x.Loop(i), y.Loop(i), true); s != "" {
					return fmt.Sprintf("loop %d: %s", i, s)
				}
			}
			if x.NumEdges() != y.NumEdges() {
				return "edge count differs"
			}
			if !eqRect(x.RectBound(), y.RectBound()) {
				return fmt.Sprintf("polygon bound differs: %v != %v", x.RectBound(), y.RectBound())
			}
			if hx, ok := boolField(x, "hasHoles"); ok {
				if hy, _ := boolField(y, "hasHoles"); hx != hy {
					return "hasHoles differs"
				}
			}
			return ""
		},
		use: func(v any, pts []s2.Point, cells []s2.Cell) Ans {
			p := v.(*s2.Polygon)
			if p.NumLoops() > 5000 || p.NumEdges() > 200000 {
				return Ans{uint64(p.NumLoops())}
			}
			return usePolygon(p, pts, cells)
		},
	},
}

func boolField(v any, name string) (bool, bool) {
	rv := reflect.ValueOf(v)
	if rv.Kind() == reflect.Ptr {
		rv = rv.Elem()
	}
	f := rv.FieldByName(name)
	if !f.IsValid() || f.Kind() != reflect.Bool || !f.CanAddr() {
		return false, false
	}
	return *(*bool)(unsafe.Pointer(f.UnsafeAddr())), true
}

// verticesOf lists the vertices of a value (for drawing probes near it).
func verticesOf(v any) []s2.Point {
	switch x := v.(type) {
	case s2.Point:
		return []s2.Point{x}
	case s2.Polyline:
		return x
	case *s2.Loop:
		return x.Vertices()
	case *s2.Polygon:
		var out []s2.Point
		for _, l := range x.Loops() {
			out = append(out, l.Vertices()...)
		}
		return out
	case s2.Cap:
		return []s2.Point{x.Center()}
	case s2.Cell:
		return []s2.Point{x.Vertex(0), x.Center()}
	}
	return nil
}
