package main

import (
	"bytes"
	"fmt"
	"io"
	"math"
	"os"
	"runtime/debug"
	"sync/atomic"
	"syscall"
	"time"

	"github.com/golang/geo/s2"

	"verifsim/core"
	"verifsim/gen"
	"verifsim/simio"
)

func init() {
	register(&engine{name: "c15enum", tag: 151, run: runC15Enum})
	register(&engine{name: "c15seq", tag: 152, run: runC15Seq})
}

// weights: the formats with counts, nesting and compression get most of the corpus
var codecPick = []int{0, 1, 2, 3, 4, 5, 5, 6, 6, 7, 7, 7, 8, 8, 8, 8}

type decodeOutcome struct {
	err  bool
	viol *Violation
}

// progress watchdog for code that has no yield in it: a decode (or the use of a decoded value)
// that makes no progress for stallLimit is reported as a hang and the process exits.
var (
	c15Progress int64
	c15Current  atomic.Value // string: what is being decoded
	c15Watch    int32
)

const stallLimit = 90 * time.Second

// usedReceiver: when set, tryDecode first decodes and queries these (valid) bytes with the same
// receiver, then decodes the damaged stream into it.
var usedReceiver []byte

var traceFaults = os.Getenv("VERIF_TRACE_FAULTS") != ""

func startC15Watchdog(rc *runCtx, res *RunResult) func() {
	stop := make(chan struct{})
	go func() {
		last := atomic.LoadInt64(&c15Progress)
		lastT := time.Now()
		tk := time.NewTicker(500 * time.Millisecond)
		defer tk.Stop()
		beat := 0
		for {
			select {
			case <-stop:
				return
			case <-tk.C:
				cur := atomic.LoadInt64(&c15Progress)
				if cur != last {
					last, lastT = cur, time.Now()
					if beat++; beat%10 == 0 {
						syscall.Write(2, []byte("\nVERIF-ALIVE\n"))
					}
					continue
				}
				if time.Since(lastT) > stallLimit {
					what, _ := c15Current.Load().(string)
					res.Viol = &Violation{Kind: "hang", Site: "no progress for " + stallLimit.String(), Detail: "decode or use of the decoded value did not return: " + what}
					res.Fatal = true
					emitFatal(rc, res)
				}
			}
		}
	}()
	return func() { close(stop) }
}

// tryDecode decodes data with the typed decoder through the given reader and, if that returns a
// value, uses the value. Panics are caught and attributed to the decode or the use phase.
func tryDecode(ct *codecType, data []byte, plan simio.ReadPlan, shape int, pts []s2.Point, cells []s2.Cell, what string) (out decodeOutcome) {
	atomic.AddInt64(&c15Progress, 1)
	c15Current.Store(what)
	if traceFaults {
		// replay mode: name the input before touching it, so that a fatal abort (which cannot be
		// recovered and loses the trace) still says which damaged stream caused it
		syscall.Write(2, []byte("\nVERIF-FAULT "+what+"\n"))
	}
	phase := "decode"
	defer func() {
		if x := recover(); x != nil {
			st := string(debug.Stack())
			out.viol = &Violation{Kind: "panic", Site: phase + ":" + ct.name + ":" + panicSite(st),
				Detail: fmt.Sprintf("%s of %s panicked: %v | input: %s | %s", phase, ct.name, x, what, shortStack(st, 6))}
		}
	}()
	r := simio.NewShapedReader(data, plan, shape)
	var v any
	var err error
	if usedReceiver != nil {
		// decode into a receiver that already holds (and was queried as) another value
		v, err = ct.decode2(simio.NewShapedReader(usedReceiver, simio.NoReadFaults(), simio.ShapeByteReader), r, func(x any) { ct.use(x, pts, cells) })
	} else {
		v, err = ct.decode(r)
	}
	if err != nil {
		out.err = true
		return
	}
	phase = "use"
	ct.use(v, pts, cells)
	return
}

func encodeValue(ct *codecType, v any) ([]byte, error) {
	var buf bytes.Buffer
	if err := ct.encode(v, &buf); err != nil {
		return nil, err
	}
	return buf.Bytes(), nil
}

func fnv(b []byte) uint64 {
	h := uint64(1469598103934665603)
	for _, c := range b {
		h = (h ^ uint64(c)) * 1099511628211
	}
	return h
}

// runC15Enum: one corpus entry, every single stored-byte fault and every hard read error, under
// two reader shapes. Complete per entry (or strided above the size cap, and then it says so).
func runC15Enum(rc *runCtx) *RunResult {
	res := &RunResult{}
	stop := startC15Watchdog(rc, res)
	defer stop()
	g := gen.New()
	g.Small = true
	t := g.T
	ct := codecs[codecPick[t.Uint(uint32(len(codecPick)))]]
	v := ct.draw(g)
	enc, err := encodeValue(ct, v)
	if err != nil {
		res.Viol = &Violation{Kind: "encode-error", Site: ct.name, Detail: "Encode to a bytes.Buffer failed: " + err.Error()}
		return res
	}
	pts, cells := usePoints(g, verticesOf(v))
	rc.log("corpus entry: %s, %d bytes, first bytes % x", ct.name, len(enc), enc[:imin2(len(enc), 16)])
	res.Sig = fnv(enc) ^ uint64(len(enc))
	res.Nontrivial = len(enc) > 8
	rc.inc("corpus_"+ct.name, 1)
	rc.inc("corpus_bytes", int64(len(enc)))
	stride := 1
	const sizeCap = 3072
	if len(enc) > sizeCap {
		stride = (len(enc) + sizeCap - 1) / sizeCap
		rc.inc("entries_strided", 1)
	} else {
		rc.inc("entries_enumerated_completely", 1)
	}
	shapes := []struct {
		br   int
		plan simio.ReadPlan
		name string
	}{
		{simio.ShapeByteReader, simio.NoReadFaults(), "bytereader"},
		{simio.ShapePlain, simio.ReadPlan{FailAt: -1, Chunks: []int{1}}, "plain-1byte"},
		{simio.ShapeFile, simio.ReadPlan{FailAt: -1, Chunks: []int{7, 3, 64}}, "file-like(seekable, chunks 7/3/64)"},
	}
	seen := map[uint64]struct{}{}
	try := func(kind string, data []byte, f string, plan simio.ReadPlan, br int, shapeName string) bool {
		rc.inc("evals", 1)
		rc.inc("fault_"+kind, 1)
		h := fnv(data) ^ uint64(len(data))<<40
		if _, ok := seen[h]; !ok {
			seen[h] = struct{}{}
		}
		what := fmt.Sprintf("%s encoding (%d bytes) with %s, reader=%s", ct.name, len(enc), f, shapeName)
		o := tryDecode(ct, data, plan, br, pts, cells, what)
		if o.viol != nil {
			res.Viol = o.viol
			return false
		}
		if o.err {
			rc.inc("outcome_error", 1)
		} else {
			rc.inc("outcome_value", 1)
			if kind != "none" {
				rc.inc("decode_success_after_fault", 1)
			}
		}
		return true
	}
	for _, sh := range shapes {
		// the undamaged stream must decode
		o := tryDecode(ct, enc, sh.plan, sh.br, pts, cells, "undamaged "+ct.name)
		rc.inc("evals", 1)
		rc.inc("fault_none", 1)
		if o.viol != nil {
			res.Viol = o.viol
			return res
		}
		if o.err {
			res.Viol = &Violation{Kind: "decode-rejects-valid", Site: ct.name, Detail: "Decode rejected the library's own encoding of a valid " + ct.name + " (reader=" + sh.name + ")"}
			return res
		}
		for phase := 0; phase < 8 && phase < len(enc); phase++ {
			for _, b := range []byte{0x00, 0x20, 0x3f, 0x5f, 0x7f, 0xa0, 0xff} {
				f := simio.Fault{Kind: "stride8", Off: phase, Arg: uint64(b)}
				if !try("stride8", simio.Apply(enc, f), f.String(), sh.plan, sh.br, sh.name) {
					return res
				}
			}
		}
		for n := 0; n < len(enc); n += stride { // every truncation length
			f := simio.Fault{Kind: "truncate", Off: n}
			if !try("truncate", simio.Apply(enc, f), f.String(), sh.plan, sh.br, sh.name) {
				return res
			}
		}
		for off := 0; off < len(enc); off += stride {
			for bit := 0; bit < 8; bit++ {
				f := simio.Fault{Kind: "flip", Off: off, Arg: uint64(bit)}
				if !try("flip", simio.Apply(enc, f), f.String(), sh.plan, sh.br, sh.name) {
					return res
				}
			}
			for _, b := range []byte{0x00, 0x7f, 0x80, 0xff} {
				if enc[off] == b {
					continue
				}
				f := simio.Fault{Kind: "overwrite", Off: off, Arg: uint64(b)}
				if !try("overwrite", simio.Apply(enc, f), f.String(), sh.plan, sh.br, sh.name) {
					return res
				}
			}
			for _, x := range simio.Forge32 {
				f := simio.Fault{Kind: "forge32", Off: off, Arg: uint64(x)}
				if !try("forge32", simio.Apply(enc, f), f.String(), sh.plan, sh.br, sh.name) {
					return res
				}
			}
			for _, x := range simio.Forge64 {
				f := simio.Fault{Kind: "forge64", Off: off, Arg: x}
				if !try("forge64", simio.Apply(enc, f), f.String(), sh.plan, sh.br, sh.name) {
					return res
				}
			}
			for _, x := range simio.ForgeVarint {
				f := simio.Fault{Kind: "forgevarint", Off: off, Arg: x}
				if !try("forgevarint", simio.Apply(enc, f), f.String(), sh.plan, sh.br, sh.name) {
					return res
				}
			}
			// a torn read right behind a forged window: the reader fails after delivering the
			// forged bytes, so the decoder sees half of a field (its own scratch holds the rest
			// from the previous field)
			for _, x := range []uint64{1<<64 - 1, 1<<63 - 1} {
				f := simio.Fault{Kind: "forge64", Off: off, Arg: x}
				for _, tail := range []int{7, 8} {
					tp := sh.plan
					tp.FailAt = off + tail
					if !try("forge64+readerror", simio.Apply(enc, f), fmt.Sprintf("%s and a read error at offset %d", f.String(), off+tail), tp, sh.br, sh.name) {
						return res
					}
				}
			}
			// hard read error at this offset
			pl := sh.plan
			pl.FailAt = off
			if !try("readerror", enc, fmt.Sprintf("read error at offset %d", off), pl, sh.br, sh.name) {
				return res
			}
		}
	}
	rc.inc("distinct_cases", int64(len(seen)))
	return res
}

func imin2(a, b int) int {
	if a < b {
		return a
	}
	return b
}

// runC15Seq: seeded sequences of 1-6 mixed faults, cross-type decoding, random and spliced byte
// strings, under drawn reader behaviour.
func runC15Seq(rc *runCtx) *RunResult {
	res := &RunResult{}
	stop := startC15Watchdog(rc, res)
	defer stop()
	g := gen.New()
	t := g.T
	ct := codecs[codecPick[t.Uint(uint32(len(codecPick)))]]
	v := ct.draw(g)
	enc, err := encodeValue(ct, v)
	if err != nil {
		res.Viol = &Violation{Kind: "encode-error", Site: ct.name, Detail: "Encode to a bytes.Buffer failed: " + err.Error()}
		return res
	}
	pts, cells := usePoints(g, verticesOf(v))
	data := enc
	desc := ""
	mode := t.Uint(10)
	switch {
	case mode == 0:
		// random bytes, sometimes behind a valid header
		n := int(t.Uint(200))
		keep := 0
		if t.Chance(600) {
			keep = int(t.Uint(uint32(imin2(len(enc), 12) + 1)))
		}
		data = append([]byte(nil), enc[:keep]...)
		for i := 0; i < n; i++ {
			data = append(data, byte(t.Uint(256)))
		}
		desc = fmt.Sprintf("random bytes (%d) after %d header bytes", n, keep)
		rc.inc("fault_random_bytes", 1)
	case mode == 1:
		// splice: head of this encoding, tail of another value's encoding
		ct2 := codecs[codecPick[t.Uint(uint32(len(codecPick)))]]
		enc2, err2 := encodeValue(ct2, ct2.draw(g))
		if err2 == nil && len(enc) > 0 {
			cut := int(t.Uint(uint32(len(enc) + 1)))
			cut2 := int(t.Uint(uint32(len(enc2) + 1)))
			data = append(append([]byte(nil), enc[:cut]...), enc2[cut2:]...)
			desc = fmt.Sprintf("splice %s[:%d] + %s[%d:]", ct.name, cut, ct2.name, cut2)
		}
		rc.inc("fault_splice", 1)
	case mode == 3 && (ct.name == "Loop" || ct.name == "Polyline"):
		// hostile but well-formed stream: a lossless loop / polyline whose vertices are arbitrary
		// finite coordinates (any scale, repeated, antipodal, zig-zag between far points, collinear)
		// instead of the vertices of a valid shape. Format knowledge used: version byte, 32-bit count,
		// 24 bytes per vertex; the rest of the stream is the tail of the valid encoding.
		nv := 1 + int(t.Uint(48))
		if t.Chance(300) {
			nv = 33 + int(t.Uint(40))
		}
		pool := make([]s2.Point, 2+int(t.Uint(4)))
		for i := range pool {
			pool[i] = g.Point()
		}
		scale := 1.0
		switch t.Uint(6) {
		case 1:
			scale = 1e-150
		case 2:
			scale = 1e-300
		case 3:
			scale = 1e150
		case 4:
			scale = 1 + 1e-9
		}
		data = []byte{1, byte(nv), byte(nv >> 8), 0, 0}
		putF := func(x float64) {
			b := math.Float64bits(x)
			for k := 0; k < 8; k++ {
				data = append(data, byte(b>>(8*uint(k))))
			}
		}
		for i := 0; i < nv; i++ {
			p := pool[int(t.Uint(uint32(len(pool))))]
			if t.Chance(300) {
				p = g.PointNear(p, 1e-3)
			}
			if t.Chance(50) {
				p = s2.Point{Vector: p.Vector.Mul(-1)}
			}
			putF(p.X * scale)
			putF(p.Y * scale)
			putF(p.Z * scale)
		}
		// tail of the valid encoding (flags, depth, bound for a loop; nothing for a polyline)
		if ct.name == "Loop" {
			if l, ok := v.(*s2.Loop); ok {
				skip := 5 + 24*l.NumVertices()
				if skip <= len(enc) {
					data = append(data, enc[skip:]...)
				}
			}
		}
		desc = fmt.Sprintf("hostile %s: %d arbitrary vertices from a pool of %d, scale %g", ct.name, nv, len(pool), scale)
		rc.inc("fault_hostile_geometry", 1)
	case mode == 2 && ct.name == "Polygon" && len(enc) > 7 && enc[0] == 1:
		// loop-level splice of a lossless polygon: the stream is re-assembled from the library's own
		// encodings of the loops (Loop.Encode writes exactly what Polygon.Encode writes per loop), with
		// loops inserted (zero-vertex, empty, full), duplicated, dropped or swapped and the declared
		// count set to the real number or off by one. Format knowledge used: the 7-byte header.
		p := v.(*s2.Polygon)
		var parts [][]byte
		total := 7
		ok := true
		for i := 0; i < p.NumLoops(); i++ {
			var lb bytes.Buffer
			if err := p.Loop(i).Encode(&lb); err != nil {
				ok = false
			}
			parts = append(parts, lb.Bytes())
			total += lb.Len()
		}
		if ok && total <= len(enc) {
			tailB := enc[total:]
			special := func(l *s2.Loop) []byte {
				var lb bytes.Buffer
				_ = l.Encode(&lb)
				return lb.Bytes()
			}
			ne := 1 + int(t.Uint(3))
			for e := 0; e < ne; e++ {
				pos := int(t.Uint(uint32(len(parts) + 1)))
				switch t.Uint(6) {
				case 0:
					parts = append(parts[:pos], append([][]byte{special(new(s2.Loop))}, parts[pos:]...)...)
					desc += fmt.Sprintf("insert-zero-vertex-loop@%d ", pos)
				case 1:
					parts = append(parts[:pos], append([][]byte{special(s2.EmptyLoop())}, parts[pos:]...)...)
					desc += fmt.Sprintf("insert-empty-loop@%d ", pos)
				case 2:
					parts = append(parts[:pos], append([][]byte{special(s2.FullLoop())}, parts[pos:]...)...)
					desc += fmt.Sprintf("insert-full-loop@%d ", pos)
				case 3:
					if len(parts) > 0 {
						src := parts[int(t.Uint(uint32(len(parts))))]
						parts = append(parts[:pos], append([][]byte{src}, parts[pos:]...)...)
						desc += fmt.Sprintf("duplicate-loop@%d ", pos)
					}
				case 4:
					if len(parts) > 0 && pos < len(parts) {
						parts = append(parts[:pos], parts[pos+1:]...)
						desc += fmt.Sprintf("drop-loop@%d ", pos)
					}
				default:
					if len(parts) > 1 {
						a, b := int(t.Uint(uint32(len(parts)))), int(t.Uint(uint32(len(parts))))
						parts[a], parts[b] = parts[b], parts[a]
						desc += fmt.Sprintf("swap-loops %d,%d ", a, b)
					}
				}
			}
			n := len(parts)
			switch t.Uint(5) {
			case 0:
				n++
			case 1:
				if n > 0 {
					n--
				}
			}
			data = append([]byte(nil), enc[:3]...)
			data = append(data, byte(n), byte(n>>8), byte(n>>16), byte(n>>24))
			for _, pb := range parts {
				data = append(data, pb...)
			}
			data = append(data, tailB...)
			desc += fmt.Sprintf("declared-loops=%d actual=%d ", n, len(parts))
		}
		rc.inc("fault_loop_splice", 1)
	default:
		nf := 1 + int(t.Uint(6))
		for i := 0; i < nf && len(data) > 0; i++ {
			var f simio.Fault
			off := int(t.Uint(uint32(len(data))))
			switch t.Uint(9) {
			case 0:
				f = simio.Fault{Kind: "truncate", Off: off}
			case 1, 2:
				f = simio.Fault{Kind: "flip", Off: off, Arg: uint64(t.Uint(8))}
			case 3:
				f = simio.Fault{Kind: "overwrite", Off: off, Arg: uint64(t.Uint(256))}
			case 4:
				f = simio.Fault{Kind: "forge32", Off: off, Arg: uint64(simio.Forge32[t.Uint(uint32(len(simio.Forge32)))])}
			case 5:
				f = simio.Fault{Kind: "forge64", Off: off, Arg: simio.Forge64[t.Uint(uint32(len(simio.Forge64)))]}
			case 6:
				f = simio.Fault{Kind: "forgevarint", Off: off, Arg: simio.ForgeVarint[t.Uint(uint32(len(simio.ForgeVarint)))]}
			case 7:
				f = simio.Fault{Kind: "garbage-tail", Off: 1 + int(t.Uint(64)), Arg: uint64(t.Uint(1 << 30))}
				if t.Chance(500) {
					f = simio.Fault{Kind: "stride8", Off: int(t.Uint(8)), Arg: uint64(t.Uint(256))}
				}
			default:
				f = simio.Fault{Kind: "dup-tail", Off: off}
			}
			data = simio.Apply(data, f)
			desc += f.String() + " "
			rc.inc("fault_"+f.Kind, 1)
		}
	}
	// which decoder reads it: usually its own, sometimes another type's (cross-type decoding)
	dct := ct
	if t.Chance(150) {
		dct = codecs[t.Uint(uint32(len(codecs)))]
		desc += "decoded as " + dct.name + " "
		rc.inc("fault_cross_type", 1)
	}
	// reader behaviour
	plan := simio.NoReadFaults()
	br := int(t.Uint(simio.NumShapes))
	if t.Chance(600) {
		nc := 1 + int(t.Uint(4))
		for i := 0; i < nc; i++ {
			plan.Chunks = append(plan.Chunks, 1+int(t.Uint(9)))
		}
		rc.inc("reader_chunked", 1)
	}
	if t.Chance(300) {
		plan.EOFWithData = true
		rc.inc("reader_eof_with_data", 1)
	}
	if t.Chance(200) {
		plan.ZeroEvery = 2 + int(t.Uint(4))
		rc.inc("reader_zero_reads", 1)
	}
	if t.Chance(250) && len(data) > 0 {
		plan.FailAt = int(t.Uint(uint32(len(data))))
		plan.Transient = t.Chance(500)
		if t.Chance(500) {
			plan.Err = io.ErrUnexpectedEOF
		}
		rc.inc("fault_readerror", 1)
		desc += fmt.Sprintf("read error at %d transient=%v ", plan.FailAt, plan.Transient)
	}
	rc.log("%s (%d bytes) -> %s| reader: shape=%v chunks=%v eofWithData=%v zeroEvery=%d", ct.name, len(enc), desc, br, plan.Chunks, plan.EOFWithData, plan.ZeroEvery)
	res.Sig = fnv(data) ^ uint64(len(data))<<32 ^ uint64(len(plan.Chunks))
	res.Nontrivial = len(data) != len(enc) || !bytes.Equal(data, enc) || plan.FailAt >= 0
	rc.inc("evals", 1)
	usedReceiver = nil
	if t.Chance(200) {
		if fb, err := encodeValue(dct, dct.draw(g)); err == nil {
			usedReceiver = fb
			desc += fmt.Sprintf("into a receiver that held another %s (%d bytes) ", dct.name, len(fb))
			rc.inc("decode_into_used_receiver", 1)
		}
	}
	defer func() { usedReceiver = nil }()
	o := tryDecode(dct, data, plan, br, pts, cells, fmt.Sprintf("%s encoding (%d bytes) with %s", ct.name, len(enc), desc))
	if o.viol != nil {
		res.Viol = o.viol
		return res
	}
	if o.err {
		rc.inc("outcome_error", 1)
	} else {
		rc.inc("outcome_value", 1)
		if res.Nontrivial {
			rc.inc("decode_success_after_fault", 1)
		}
	}
	_ = core.VOK
	return res
}
