package main

import (
	"fmt"

	"verifsim/core"
	"verifsim/gen"
)

func init() { register(&engine{name: "c14", tag: 14, run: runC14}) }

// initial index states of a shared object when a burst starts
const (
	stNever = 0 // never built
	stBuilt = 1 // already built
	stStale = 2 // built, then mutated (Invert / Add) so that it is stale again
)

type c14World struct {
	descs []*ObjDesc
	state []int
	split []int // OIndex+stStale: how many shapes are added before the first build
}

// mkClone builds a fresh copy of the world and drives every object into its initial state.
func (w *c14World) mkClone() []*Obj {
	out := make([]*Obj, len(w.descs))
	// loops and polygons first (in their final initial state), then the indexes, which may hold
	// some of those very objects as shapes
	for pass := 0; pass < 2; pass++ {
		for i, d := range w.descs {
			if (d.Kind == OIndex) != (pass == 1) {
				continue
			}
			switch w.state[i] {
			case stNever:
				out[i] = buildObjIn(d, len(d.Shapes), out)
			case stBuilt:
				out[i] = buildObjIn(d, len(d.Shapes), out)
				if ix := out[i].index(); ix != nil {
					ix.Build()
				}
			case stStale:
				switch d.Kind {
				case OLoop:
					out[i] = buildObjIn(d, 1, out)
					if ix := out[i].index(); ix != nil {
						ix.Build()
					}
					out[i].Loop.Invert()
				case OPolygon:
					out[i] = buildObjIn(d, 1, out)
					if ix := out[i].index(); ix != nil {
						ix.Build()
					}
					out[i].Poly.Invert()
					setMaxEdgesPerCell(out[i].index(), d.MaxEdges)
				default:
					out[i] = buildObjIn(d, w.split[i], out)
					out[i].Index.Build()
					for j := w.split[i]; j < len(d.Shapes); j++ {
						out[i].addShape(j)
					}
				}
			}
		}
	}
	return out
}

// aliased reports whether object i is held as a shape by some index of the world (such an object
// must not be mutated between bursts: the index would not know).
func (w *c14World) aliased(i int) bool {
	for _, d := range w.descs {
		for _, a := range d.Alias {
			if a == i {
				return true
			}
		}
	}
	return false
}

// mutate applies the between-bursts mutation to a clone (the spawning goroutine does this after
// joining the first burst, which is how a correct program sequences mutation against reads).
func mutateClone(world []*Obj, obj int, extra *gen.ShapeDesc) {
	o := world[obj]
	switch o.Kind {
	case OLoop:
		o.Loop.Invert()
	case OPolygon:
		o.Poly.Invert()
		setMaxEdgesPerCell(o.index(), o.Desc.MaxEdges)
	default:
		sh := extra.BuildShape()
		o.Shapes = append(o.Shapes, sh)
		o.Index.Add(sh)
	}
}

type serialOut struct {
	ans    [][]Ans
	panics string
}

func runSerial(world []*Obj, scripts [][]Op) (out serialOut) {
	out.ans = make([][]Ans, len(scripts))
	defer func() {
		if x := recover(); x != nil {
			out.panics = fmt.Sprint(x)
		}
	}()
	for t := range scripts {
		out.ans[t] = make([]Ans, len(scripts[t]))
		for i := range scripts[t] {
			out.ans[t][i] = execQuery(world, &scripts[t][i], nil)
		}
	}
	return
}

func eqAns(a, b Ans) bool { return eqU64(a, b) }

// coldFirst: the first run of this process is a cold run (flag -cold): the concurrent burst is
// the first thing after object construction that touches the library, so state that the library
// initialises on first use is first used by racing readers, as in a freshly started program.
var coldFirst bool
var coldDone bool

func runC14(rc *runCtx) *RunResult {
	if coldFirst && !coldDone {
		coldDone = true
		return runC14Cold(rc)
	}
	res := &RunResult{}
	g := gen.New()
	t := g.T
	maxV := 200
	w := &c14World{}
	w.descs = drawWorld(g, 3, maxV)
	w.state = make([]int, len(w.descs))
	w.split = make([]int, len(w.descs))
	// some index shapes ARE other objects of the world (the same polygon queried directly and
	// through an index that holds it)
	for _, d := range w.descs {
		if d.Kind != OIndex {
			continue
		}
		d.Alias = make([]int, len(d.Shapes))
		for si := range d.Alias {
			d.Alias[si] = -1
			if t.Chance(250) {
				var cands []int
				for j, e := range w.descs {
					used := false
					for _, a := range d.Alias[:si] {
						if a == j {
							used = true // one Go object is added to an index at most once
						}
					}
					if (e.Kind == OLoop || e.Kind == OPolygon) && !used {
						cands = append(cands, j)
					}
				}
				if len(cands) > 0 {
					j := cands[int(t.Uint(uint32(len(cands))))]
					d.Alias[si] = j
					d.Shapes[si] = w.descs[j].Shapes[0] // keep the description in step (probes, vertex counts)
					rc.inc("probe_object_shared_with_index", 1)
				}
			}
		}
	}
	for i, d := range w.descs {
		w.state[i] = int(t.Uint(3))
		if d.Kind == OIndex && w.state[i] == stStale {
			if len(d.Shapes) < 2 {
				w.state[i] = stBuilt
			} else {
				w.split[i] = 1 + int(t.Uint(uint32(len(d.Shapes)-1)))
			}
		}
		rc.log("obj%d %s state=%d", i, describeObj(d), w.state[i])
		rc.inc(fmt.Sprintf("init_state_%d", w.state[i]), 1)
	}
	drawKindMask(g.T)
	nbursts := 1
	if t.Chance(300) {
		nbursts = 2
	}

	var refA, refB, sub []*Obj
	clonePanic := func() (p string) {
		defer func() {
			if x := recover(); x != nil {
				p = fmt.Sprint(x)
			}
		}()
		refA = w.mkClone()
		refB = w.mkClone()
		sub = w.mkClone()
		for _, o := range refB {
			if ix := o.index(); ix != nil {
				ix.Build()
			}
		}
		return ""
	}()
	if clonePanic != "" {
		// constructing the world failed single-threaded: not a schedule matter (C13/C15 territory)
		rc.inc("skipped_world_panic", 1)
		res.Sample = "world construction panicked single-threaded: " + clonePanic
		return res
	}

	sig := uint64(1469598103934665603)
	nontrivial := false
	for burst := 0; burst < nbursts; burst++ {
		if burst > 0 {
			obj := int(t.Uint(uint32(len(w.descs))))
			for tries := 0; w.aliased(obj) && tries < len(w.descs); tries++ {
				obj = (obj + 1) % len(w.descs)
			}
			if w.aliased(obj) {
				break
			}
			var extra *gen.ShapeDesc
			if w.descs[obj].Kind == OIndex {
				e := g.AnyShapeDesc(60)
				extra = &e
				// keep the description in step so that probes and shape ids cover the new shape
				w.descs[obj].Shapes = append(w.descs[obj].Shapes, e)
				w.descs[obj].Alias = append(w.descs[obj].Alias, -1)
			}
			rc.log("between bursts: mutate obj%d", obj)
			mp := func() (p string) {
				defer func() {
					if x := recover(); x != nil {
						p = fmt.Sprint(x)
					}
				}()
				mutateClone(refA, obj, extra)
				mutateClone(refB, obj, extra)
				mutateClone(sub, obj, extra)
				for _, o := range refB {
					if ix := o.index(); ix != nil {
						ix.Build()
					}
				}
				return ""
			}()
			if mp != "" {
				rc.inc("skipped_mutation_panic", 1)
				return res
			}
			rc.inc("second_bursts", 1)
		}
		// thorough tier: deeper bursts (more tasks, longer scripts)
		maxExtraTasks, maxOps := uint32(5), uint32(6)
		if rc.tier == "thorough" {
			maxExtraTasks, maxOps = 7, 10
		}
		ntasks := 2 + int(t.Uint(maxExtraTasks))
		scripts := make([][]Op, ntasks)
		// hammer mode: every task asks many point-containment questions of one object (behaviour
		// that switches after a number of calls, such as "build the index after N unindexed
		// calls", only shows when one object is asked often enough)
		hammer := -1
		if t.Chance(120) {
			hammer = int(t.Uint(uint32(len(w.descs))))
			rc.inc("hammer_bursts", 1)
		}
		for k := range scripts {
			n := 1 + int(t.Uint(maxOps))
			if hammer >= 0 {
				n = 6 + int(t.Uint(12))
			}
			scripts[k] = make([]Op, n)
			for i := range scripts[k] {
				scripts[k][i] = drawQuery(g, w.descs, true)
				if hammer >= 0 {
					hq := drawQueryOn(g, w.descs, hammer)
					hq.Kind = QContainsPoint
					scripts[k][i] = hq
				}
				rc.log("burst%d task%d op%d %s", burst, k, i, scripts[k][i].String())
				rc.inc("q_"+qNames[scripts[k][i].Kind], 1)
			}
		}
		// serial references, with step counting on the first
		core.StartCounting()
		sa := runSerial(refA, scripts)
		core.StopCounting()
		est := core.StratCfg{Force: -1,
			EstSF:    core.S.CountSteps[core.ClassS] + core.S.CountSteps[core.ClassF],
			EstTotal: core.S.CountSteps[0] + core.S.CountSteps[1] + core.S.CountSteps[2]}
		sb := runSerial(refB, scripts)
		if sa.panics != "" || sb.panics != "" {
			// fails single-threaded too: history/input matter, not a schedule matter
			rc.inc("skipped_serial_panic", 1)
			res.Sample = "serial reference panicked: " + sa.panics + sb.panics
			return res
		}
		serialDiffer := false
		for k := range scripts {
			for i := range scripts[k] {
				if op := &scripts[k][i]; (op.Kind == QRelContains || op.Kind == QRelIntersects) && op.Obj != op.Obj2 && len(sa.ans[k][i]) >= 1 && sa.ans[k][i][0] == 1 {
					rc.inc("probe_relation_true_between_distinct_objects", 1)
				}
				if !eqAns(sa.ans[k][i], sb.ans[k][i]) {
					serialDiffer = true
				}
			}
		}
		if serialDiffer {
			rc.inc("serial_variants_differ", 1)
		}

		// the concurrent burst
		ans := make([][]Ans, ntasks)
		fns := make([]func(), ntasks)
		for k := range scripts {
			k := k
			ans[k] = make([]Ans, len(scripts[k]))
			fns[k] = func() {
				for i := range scripts[k] {
					ans[k][i] = execQuery(sub, &scripts[k][i], nil)
				}
			}
		}
		core.S.BeginRun(ntasks, est)
		verdict, panics := core.RunTasks(fns, func(x any) string { return fmt.Sprint(x) })
		s := &core.S
		rc.inc("bursts", 1)
		rc.inc("tasks", int64(ntasks))
		rc.inc("steps", s.Steps)
		rc.inc("steps_S", s.StepsByClass[0])
		rc.inc("steps_F", s.StepsByClass[1])
		rc.inc("steps_O", s.StepsByClass[2])
		rc.inc("switches", int64(s.Switches))
		rc.inc("preempt_S", int64(s.SwByClass[0]))
		rc.inc("preempt_F", int64(s.SwByClass[1]))
		rc.inc("preempt_O", int64(s.SwByClass[2]))
		rc.inc("lock_blocks", int64(s.Blocks))
		rc.inc("spin_yields", int64(s.SpinSwitches))
		rc.inc(fmt.Sprintf("strategy_%d", s.Strat), 1)
		rc.inc("lock_acquisitions", int64(s.LockAcq))
		if s.Foreign > 0 {
			rc.inc("hook_calls_from_library_goroutines_ignored", s.Foreign)
		}
		if s.LockAcq >= 2 {
			rc.inc("probe_two_builders_same_burst", 1)
		}
		if s.Blocks > 0 {
			rc.inc("probe_blocked_on_build", 1)
		}
		if s.MaxBlocked >= 3 {
			rc.inc("probe_three_blocked", 1)
		}
		preempts := s.SwByClass[0] + s.SwByClass[1] + s.SwByClass[2]
		if preempts > 0 {
			nontrivial = true
		}
		sig = (sig ^ s.IHash) * 1099511628211
		schedTrace(rc)
		if verdict != core.VOK {
			if verdict == core.VOverflow {
				rc.inc("sim_overflow", 1)
				res.Fatal = true
				return res
			}
			res.Fatal = true
			res.Viol = &Violation{Kind: core.VerdictName(verdict), Site: siteName(s.VSite),
				Detail: fmt.Sprintf("burst %d: task%d %s at %s after %d steps (last preemption at step %d)", burst, s.VTask, core.VerdictName(verdict), siteName(s.VSite), s.Steps, s.FaultsStoppedAt())}
			res.Sig = sig
			res.Nontrivial = nontrivial
			return res
		}
		if len(panics) > 0 {
			p := panics[0]
			res.Viol = &Violation{Kind: "panic", Site: panicSite(p.Stack),
				Detail: fmt.Sprintf("burst %d: task%d panicked: %s | %s", burst, p.Task, p.Value, shortStack(p.Stack, 8))}
			res.Sig = sig
			res.Nontrivial = nontrivial
			res.Fatal = true // a task may have died holding a lock
			return res
		}
		for k := range scripts {
			for i := range scripts[k] {
				if !eqAns(ans[k][i], sa.ans[k][i]) && !eqAns(ans[k][i], sb.ans[k][i]) {
					op := &scripts[k][i]
					res.Viol = &Violation{Kind: "wrong-answer", Site: qNames[op.Kind] + "/" + objKindNames[w.descs[op.Obj].Kind],
						Detail: fmt.Sprintf("burst %d task%d op%d %s: concurrent answer %v; serial (lazy index) %v; serial (prebuilt index) %v", burst, k, i, op.String(), trunc(ans[k][i]), trunc(sa.ans[k][i]), trunc(sb.ans[k][i]))}
					res.Sig = sig
					res.Nontrivial = nontrivial
					return res
				}
			}
		}
		// invariant after the burst: every index has exactly the serial clone's cells, in order
		for i := range sub {
			ixS, ixA := sub[i].index(), refA[i].index()
			if ixS == nil || ixA == nil {
				continue
			}
			var cs, ca []uint64
			ip := func() (p string) {
				defer func() {
					if x := recover(); x != nil {
						p = fmt.Sprint(x)
					}
				}()
				cs, ca = cellList(ixS), cellList(ixA)
				return ""
			}()
			if ip != "" {
				rc.inc("skipped_invariant_panic", 1)
				continue
			}
			if len(cs) >= 6 && len(w.descs[i].Shapes) >= 2 {
				rc.inc("probe_index_2shapes_6cells", 1)
			}
			if !strictlyIncreasing(cs) || !eqU64(cs, ca) {
				res.Viol = &Violation{Kind: "index-invariant", Site: objKindNames[w.descs[i].Kind],
					Detail: fmt.Sprintf("burst %d: obj%d index after the concurrent burst has %d cells (strictly increasing=%v), the serial clone has %d", burst, i, len(cs), strictlyIncreasing(cs), len(ca))}
				res.Sig = sig
				res.Nontrivial = nontrivial
				return res
			}
		}
	}
	res.Sig = sig
	res.Nontrivial = nontrivial
	if rc.emitAll {
		res.Sample = fmt.Sprintf("%d objects, %d bursts", len(w.descs), nbursts)
	}
	return res
}

func trunc(a Ans) Ans {
	if len(a) > 12 {
		return a[:12]
	}
	return a
}

// runC14Cold: one burst on never-built objects in a process that has done nothing but construct
// them. The serial references are computed AFTER the burst.
func runC14Cold(rc *runCtx) *RunResult {
	res := &RunResult{}
	g := gen.New()
	g.NoCells = true
	t := g.T
	w := &c14World{}
	w.descs = drawWorld(g, 3, 200)
	w.state = make([]int, len(w.descs))
	w.split = make([]int, len(w.descs))
	drawKindMask(t)
	ntasks := 2 + int(t.Uint(5))
	scripts := make([][]Op, ntasks)
	for k := range scripts {
		n := 1 + int(t.Uint(6))
		scripts[k] = make([]Op, n)
		for i := range scripts[k] {
			scripts[k][i] = drawQuery(g, w.descs, true)
			rc.inc("q_"+qNames[scripts[k][i].Kind], 1)
		}
	}
	var sub []*Obj
	if p := func() (p string) {
		defer func() {
			if x := recover(); x != nil {
				p = fmt.Sprint(x)
			}
		}()
		sub = w.mkClone()
		return ""
	}(); p != "" {
		rc.inc("skipped_world_panic", 1)
		return res
	}
	ans := make([][]Ans, ntasks)
	fns := make([]func(), ntasks)
	for k := range scripts {
		k := k
		ans[k] = make([]Ans, len(scripts[k]))
		fns[k] = func() {
			for i := range scripts[k] {
				ans[k][i] = execQuery(sub, &scripts[k][i], nil)
			}
		}
	}
	core.S.BeginRun(ntasks, core.StratCfg{Force: -1, EstSF: 3000, EstTotal: 3000000})
	verdict, panics := core.RunTasks(fns, func(x any) string { return fmt.Sprint(x) })
	s := &core.S
	rc.inc("cold_bursts", 1)
	rc.inc("bursts", 1)
	rc.inc("tasks", int64(ntasks))
	rc.inc("steps", s.Steps)
	rc.inc("switches", int64(s.Switches))
	rc.inc("preempt_S", int64(s.SwByClass[0]))
	rc.inc("preempt_F", int64(s.SwByClass[1]))
	rc.inc("preempt_O", int64(s.SwByClass[2]))
	rc.inc(fmt.Sprintf("strategy_%d", s.Strat), 1)
	res.Sig = s.IHash ^ 0xC01D
	res.Nontrivial = s.SwByClass[0]+s.SwByClass[1]+s.SwByClass[2] > 0
	for i, d := range w.descs {
		rc.log("cold run: obj%d %s", i, describeObj(d))
	}
	for k := range scripts {
		for i := range scripts[k] {
			rc.log("cold burst task%d op%d %s", k, i, scripts[k][i].String())
		}
	}
	schedTrace(rc)
	if verdict != core.VOK {
		res.Fatal = true
		if verdict == core.VOverflow {
			rc.inc("sim_overflow", 1)
			return res
		}
		res.Viol = &Violation{Kind: core.VerdictName(verdict), Site: siteName(s.VSite),
			Detail: fmt.Sprintf("cold process, first burst: task%d %s at %s after %d steps", s.VTask, core.VerdictName(verdict), siteName(s.VSite), s.Steps)}
		return res
	}
	if len(panics) > 0 {
		p := panics[0]
		res.Viol = &Violation{Kind: "panic", Site: panicSite(p.Stack),
			Detail: fmt.Sprintf("cold process, first burst: task%d panicked: %s | %s", p.Task, p.Value, shortStack(p.Stack, 8))}
		res.Fatal = true
		return res
	}
	// serial references, after the fact
	var refA, refB []*Obj
	if p := func() (p string) {
		defer func() {
			if x := recover(); x != nil {
				p = fmt.Sprint(x)
			}
		}()
		refA = w.mkClone()
		refB = w.mkClone()
		for _, o := range refB {
			if ix := o.index(); ix != nil {
				ix.Build()
			}
		}
		return ""
	}(); p != "" {
		rc.inc("skipped_world_panic", 1)
		return res
	}
	sa := runSerial(refA, scripts)
	sb := runSerial(refB, scripts)
	if sa.panics != "" || sb.panics != "" {
		rc.inc("skipped_serial_panic", 1)
		return res
	}
	for k := range scripts {
		for i := range scripts[k] {
			if !eqAns(ans[k][i], sa.ans[k][i]) && !eqAns(ans[k][i], sb.ans[k][i]) {
				op := &scripts[k][i]
				res.Viol = &Violation{Kind: "wrong-answer", Site: qNames[op.Kind] + "/" + objKindNames[w.descs[op.Obj].Kind],
					Detail: fmt.Sprintf("cold process, first burst task%d op%d %s: concurrent answer %v; serial (lazy index) %v; serial (prebuilt index) %v", k, i, op.String(), trunc(ans[k][i]), trunc(sa.ans[k][i]), trunc(sb.ans[k][i]))}
				return res
			}
		}
	}
	return res
}
