package main

import (
	"bytes"
	"fmt"
	"math"

	"github.com/golang/geo/s1"
	"github.com/golang/geo/s2"

	"verifsim/core"
	"verifsim/gen"
)

// ---- read-only query operations shared by C14 (bursts) and C13 (histories) ----------------

const (
	QContainsPoint    = iota // Loop/Polygon.ContainsPoint, index: ContainsPointQuery.Contains
	QContainsCell            // Loop/Polygon.ContainsCell
	QIntersectsCell          // Loop/Polygon.IntersectsCell
	QRelContains             // Loop.Contains(Loop) / Polygon.Contains(Polygon)
	QRelIntersects           // Loop.Intersects(Loop) / Polygon.Intersects(Polygon)
	QContainingShapes        // index: ContainsPointQuery.ContainingShapes
	QShapeContains           // index: ContainsPointQuery.ShapeContains
	QCrossings               // index: CrossingEdgeQuery.Crossings
	QCrossingsMap            // index: CrossingEdgeQuery.CrossingsEdgeMap
	QFindEdges               // index: EdgeQuery.FindEdges
	QDistance                // index: EdgeQuery.Distance
	QIsDistLess              // index: EdgeQuery.IsDistanceLess / IsDistanceGreater
	QIsConsDist              // index: IsConservativeDistanceLessOrEqual / GreaterOrEqual
	QWalk                    // index: iterate all cells
	QRegionBound             // index: Region().CellUnionBound / CapBound
	QBuild                   // index: Build()
	QIsFreshNumEdges         // index: NumEdges() (IsFresh is schedule dependent: executed, not compared)
	QLocate                  // index: Iterator().LocatePoint / LocateCellID
	QMisc                    // Loop/Polygon: Area, Centroid, TurningAngle, NumEdges, edges, Validate; index: shapes' reference points, End()/Prev walk
	QBounds                  // Loop/Polygon: RectBound, CapBound, CellUnionBound
	QMember                  // a loop reached through a shared polygon (Polygon.Loop(i)) or a Loop/Polygon reached through a shared index (Shape(id)), queried directly: it has a lazily built index of its own
	NumQKinds
)

var qNames = [...]string{"ContainsPoint", "ContainsCell", "IntersectsCell", "Contains", "Intersects",
	"ContainingShapes", "ShapeContains", "Crossings", "CrossingsEdgeMap", "FindEdges", "Distance",
	"IsDistanceLess", "IsConservativeDistance", "WalkCells", "RegionBound", "Build", "NumEdges", "Locate", "Misc", "Bounds", "Member"}

// target kinds
const (
	TPoint = iota
	TEdge
	TCell
	TIndex
	NumTKinds
)

var tNames = [...]string{"point", "edge", "cell", "index"}

// EQOpts are the user-configured EdgeQuery options.
type EQOpts struct {
	Furthest   bool
	MaxResults int // 0: unlimited (default)
	HasLimit   bool
	Limit      s1.ChordAngle
	MaxError   s1.ChordAngle
	Interiors  bool
	BruteForce bool
	NilOpts    bool // pass nil options to the constructor (the documented way to get the defaults)
}

func (o EQOpts) String() string {
	k := "closest"
	if o.Furthest {
		k = "furthest"
	}
	s := k
	if o.MaxResults > 0 {
		s += fmt.Sprintf(",max=%d", o.MaxResults)
	}
	if o.HasLimit {
		s += fmt.Sprintf(",limit=%g", float64(o.Limit))
	}
	if o.MaxError != 0 {
		s += fmt.Sprintf(",maxerr=%g", float64(o.MaxError))
	}
	if !o.Interiors {
		s += ",nointeriors"
	}
	if o.BruteForce {
		s += ",brute"
	}
	if o.NilOpts {
		s += ",nil-options"
	}
	return s
}

func (o EQOpts) build() *s2.EdgeQueryOptions {
	var e *s2.EdgeQueryOptions
	if o.Furthest {
		e = s2.NewFurthestEdgeQueryOptions()
	} else {
		e = s2.NewClosestEdgeQueryOptions()
	}
	if o.MaxResults > 0 {
		e.MaxResults(o.MaxResults)
	}
	if o.HasLimit {
		e.DistanceLimit(o.Limit)
	}
	if o.MaxError != 0 {
		e.MaxError(o.MaxError)
	}
	e.IncludeInteriors(o.Interiors)
	e.UseBruteForce(o.BruteForce)
	return e
}

func (o EQOpts) newQuery(ix *s2.ShapeIndex) *s2.EdgeQuery {
	q, _ := o.newQueryWithOptions(ix)
	return q
}

// newQueryWithOptions also returns the options object the caller keeps (the query shares it).
func (o EQOpts) newQueryWithOptions(ix *s2.ShapeIndex) (*s2.EdgeQuery, *s2.EdgeQueryOptions) {
	if o.NilOpts {
		// "If you pass a nil as the options you get the default values for the options."
		if o.Furthest {
			return s2.NewFurthestEdgeQuery(ix, nil), nil
		}
		return s2.NewClosestEdgeQuery(ix, nil), nil
	}
	eo := o.build()
	if o.Furthest {
		return s2.NewFurthestEdgeQuery(ix, eo), eo
	}
	return s2.NewClosestEdgeQuery(ix, eo), eo
}

// apply sets every option of o on an existing options object (what a caller does to change the
// options of a live query).
func (o EQOpts) apply(e *s2.EdgeQueryOptions) {
	if o.MaxResults > 0 {
		e.MaxResults(o.MaxResults)
	} else {
		e.MaxResults(math.MaxInt32)
	}
	if o.HasLimit {
		e.DistanceLimit(o.Limit)
	} else if o.Furthest {
		e.DistanceLimit(s1.NegativeChordAngle)
	} else {
		e.DistanceLimit(s1.InfChordAngle())
	}
	e.MaxError(o.MaxError)
	e.IncludeInteriors(o.Interiors)
	e.UseBruteForce(o.BruteForce)
}

// Op is one query with all of its arguments drawn in advance.
type Op struct {
	Kind    int
	Obj     int
	Obj2    int // relations: the other loop/polygon; TIndex target: the target index object
	P, Q    s2.Point
	Cell    CellArg
	Cells   []s2.CellID
	Model   s2.VertexModel
	ShapeID int
	Cross   s2.CrossingType
	EQ      EQOpts
	TK      int
	Limit   s1.ChordAngle
	Reuse   int // C13: which long-lived query object to use (-1: fresh)
	ReuseT  int // C13: which long-lived target object to use (0: a fresh target; i>0: target i-1)
}

func (op *Op) String() string {
	s := fmt.Sprintf("%s(obj%d", qNames[op.Kind], op.Obj)
	switch op.Kind {
	case QRelContains, QRelIntersects:
		s += fmt.Sprintf(",obj%d", op.Obj2)
	case QFindEdges, QDistance, QIsDistLess, QIsConsDist:
		s += fmt.Sprintf(",%s,target=%s", op.EQ, tNames[op.TK])
		if op.TK == TIndex {
			s += fmt.Sprintf(":obj%d", op.Obj2)
		}
		if op.Kind >= QIsDistLess {
			s += fmt.Sprintf(",limit=%g", float64(op.Limit))
		}
	case QContainsCell, QIntersectsCell:
		s += "," + op.Cell.Cell().ID().String()
	case QContainingShapes, QShapeContains, QContainsPoint:
		s += fmt.Sprintf(",model=%d", int(op.Model))
	case QMember:
		s += fmt.Sprintf(",member=%d,%s", op.ShapeID, op.Cell.Cell().ID().String())
	}
	if op.Reuse >= 0 {
		s += fmt.Sprintf(",reuse=q%d", op.Reuse)
	}
	if op.ReuseT > 0 {
		s += fmt.Sprintf(",reuse-target=t%d", op.ReuseT-1)
	}
	return s + ")"
}

// orderMark separates the part of an answer that does not depend on the order in which a polygon
// happens to store its loops from the part that does.
const orderMark = uint64(0xFEEDFACECAFEBEEF)

func orderIndependent(a Ans) Ans {
	for i, w := range a {
		if w == orderMark {
			return a[:i]
		}
	}
	return a
}

// CellArg names a cell without computing it: the level-L ancestor of the leaf cell containing P.
// The cell itself is computed where the query runs (inside the task), as a caller would, and not
// while the world is drawn.
type CellArg struct {
	P s2.Point
	L int
}

func (c CellArg) Cell() s2.Cell { return s2.CellFromCellID(s2.CellFromPoint(c.P).ID().Parent(c.L)) }

// Ans is an encoded answer; compared word for word.
type Ans []uint64

func fnvBytes(b []byte) uint64 {
	h := uint64(1469598103934665603)
	for _, c := range b {
		h = (h ^ uint64(c)) * 1099511628211
	}
	return h ^ uint64(len(b))<<48
}

func b2u(b bool) uint64 {
	if b {
		return 1
	}
	return 0
}

// tcalls binds one fresh target per call.
type tcalls struct {
	find   func(q *s2.EdgeQuery) []s2.EdgeQueryResult
	dist   func(q *s2.EdgeQuery) s1.ChordAngle
	less   func(q *s2.EdgeQuery, l s1.ChordAngle) bool
	consLE func(q *s2.EdgeQuery, l s1.ChordAngle) bool
}

// memo: a long-lived target is one instance used by every call; otherwise a new target per call.
func memo[T any](shared bool, f func() *T) func() *T {
	if !shared {
		return f
	}
	var inst *T
	return func() *T {
		if inst == nil {
			inst = f()
		}
		return inst
	}
}

func targetCalls(op *Op, world []*Obj, shared bool) tcalls {
	far := op.EQ.Furthest
	switch op.TK {
	case TPoint:
		if far {
			mk := memo(shared, func() *s2.MaxDistanceToPointTarget { return s2.NewMaxDistanceToPointTarget(op.P) })
			return tcalls{
				func(q *s2.EdgeQuery) []s2.EdgeQueryResult { return q.FindEdges(mk()) },
				func(q *s2.EdgeQuery) s1.ChordAngle { return q.Distance(mk()) },
				func(q *s2.EdgeQuery, l s1.ChordAngle) bool { return q.IsDistanceGreater(mk(), l) },
				func(q *s2.EdgeQuery, l s1.ChordAngle) bool { return q.IsConservativeDistanceGreaterOrEqual(mk(), l) },
			}
		}
		mk := memo(shared, func() *s2.MinDistanceToPointTarget { return s2.NewMinDistanceToPointTarget(op.P) })
		return tcalls{
			func(q *s2.EdgeQuery) []s2.EdgeQueryResult { return q.FindEdges(mk()) },
			func(q *s2.EdgeQuery) s1.ChordAngle { return q.Distance(mk()) },
			func(q *s2.EdgeQuery, l s1.ChordAngle) bool { return q.IsDistanceLess(mk(), l) },
			func(q *s2.EdgeQuery, l s1.ChordAngle) bool { return q.IsConservativeDistanceLessOrEqual(mk(), l) },
		}
	case TEdge:
		e := s2.Edge{V0: op.P, V1: op.Q}
		if far {
			mk := memo(shared, func() *s2.MaxDistanceToEdgeTarget { return s2.NewMaxDistanceToEdgeTarget(e) })
			return tcalls{
				func(q *s2.EdgeQuery) []s2.EdgeQueryResult { return q.FindEdges(mk()) },
				func(q *s2.EdgeQuery) s1.ChordAngle { return q.Distance(mk()) },
				func(q *s2.EdgeQuery, l s1.ChordAngle) bool { return q.IsDistanceGreater(mk(), l) },
				func(q *s2.EdgeQuery, l s1.ChordAngle) bool { return q.IsConservativeDistanceGreaterOrEqual(mk(), l) },
			}
		}
		mk := memo(shared, func() *s2.MinDistanceToEdgeTarget { return s2.NewMinDistanceToEdgeTarget(e) })
		return tcalls{
			func(q *s2.EdgeQuery) []s2.EdgeQueryResult { return q.FindEdges(mk()) },
			func(q *s2.EdgeQuery) s1.ChordAngle { return q.Distance(mk()) },
			func(q *s2.EdgeQuery, l s1.ChordAngle) bool { return q.IsDistanceLess(mk(), l) },
			func(q *s2.EdgeQuery, l s1.ChordAngle) bool { return q.IsConservativeDistanceLessOrEqual(mk(), l) },
		}
	case TCell:
		if far {
			mk := memo(shared, func() *s2.MaxDistanceToCellTarget { return s2.NewMaxDistanceToCellTarget(op.Cell.Cell()) })
			return tcalls{
				func(q *s2.EdgeQuery) []s2.EdgeQueryResult { return q.FindEdges(mk()) },
				func(q *s2.EdgeQuery) s1.ChordAngle { return q.Distance(mk()) },
				func(q *s2.EdgeQuery, l s1.ChordAngle) bool { return q.IsDistanceGreater(mk(), l) },
				func(q *s2.EdgeQuery, l s1.ChordAngle) bool { return q.IsConservativeDistanceGreaterOrEqual(mk(), l) },
			}
		}
		mk := memo(shared, func() *s2.MinDistanceToCellTarget { return s2.NewMinDistanceToCellTarget(op.Cell.Cell()) })
		return tcalls{
			func(q *s2.EdgeQuery) []s2.EdgeQueryResult { return q.FindEdges(mk()) },
			func(q *s2.EdgeQuery) s1.ChordAngle { return q.Distance(mk()) },
			func(q *s2.EdgeQuery, l s1.ChordAngle) bool { return q.IsDistanceLess(mk(), l) },
			func(q *s2.EdgeQuery, l s1.ChordAngle) bool { return q.IsConservativeDistanceLessOrEqual(mk(), l) },
		}
	default: // TIndex
		tix := world[op.Obj2].index()
		if far {
			mk := memo(shared, func() *s2.MaxDistanceToShapeIndexTarget { return s2.NewMaxDistanceToShapeIndexTarget(tix) })
			return tcalls{
				func(q *s2.EdgeQuery) []s2.EdgeQueryResult { return q.FindEdges(mk()) },
				func(q *s2.EdgeQuery) s1.ChordAngle { return q.Distance(mk()) },
				func(q *s2.EdgeQuery, l s1.ChordAngle) bool { return q.IsDistanceGreater(mk(), l) },
				func(q *s2.EdgeQuery, l s1.ChordAngle) bool { return q.IsConservativeDistanceGreaterOrEqual(mk(), l) },
			}
		}
		mk := memo(shared, func() *s2.MinDistanceToShapeIndexTarget { return s2.NewMinDistanceToShapeIndexTarget(tix) })
		return tcalls{
			func(q *s2.EdgeQuery) []s2.EdgeQueryResult { return q.FindEdges(mk()) },
			func(q *s2.EdgeQuery) s1.ChordAngle { return q.Distance(mk()) },
			func(q *s2.EdgeQuery, l s1.ChordAngle) bool { return q.IsDistanceLess(mk(), l) },
			func(q *s2.EdgeQuery, l s1.ChordAngle) bool { return q.IsConservativeDistanceLessOrEqual(mk(), l) },
		}
	}
}

func encResults(rs []s2.EdgeQueryResult) Ans {
	a := make(Ans, 0, 1+3*len(rs))
	a = append(a, uint64(len(rs)))
	for _, r := range rs {
		a = append(a, math.Float64bits(float64(r.Distance())), uint64(uint32(r.ShapeID())), uint64(uint32(r.EdgeID())))
	}
	return a
}

// targetCallsFor: the op's long-lived target when it names one, else a fresh target per call.
func targetCallsFor(op *Op, world []*Obj, qs *Queries) tcalls {
	if qs != nil && op.ReuseT > 0 && op.ReuseT-1 < len(qs.Tgt) {
		return qs.Tgt[op.ReuseT-1]
	}
	return targetCalls(op, world, false)
}

// Queries holds long-lived query objects (C13). In C14 it is nil: every call makes its own.
type Queries struct {
	Tgt   []tcalls
	EQO   []*s2.EdgeQueryOptions // the caller's options object of each long-lived EdgeQuery (shared with the query)
	EQ    []*s2.EdgeQuery
	EQOpt []EQOpts
	EQObj []int
	CEQ   []*s2.CrossingEdgeQuery
	CEObj []int
	CPQ   []*s2.ContainsPointQuery
	CPObj []int
	CPMod []s2.VertexModel
	Reg   []*s2.ShapeIndexRegion
}

func shapeIDs(ix *s2.ShapeIndex, shapes []s2.Shape) []uint64 {
	out := make([]uint64, 0, len(shapes))
	n := int32(ix.Len())
	for _, sh := range shapes {
		id := uint64(math.MaxUint32)
		for i := int32(0); i < n+8; i++ {
			if ix.Shape(i) == sh {
				id = uint64(i)
				break
			}
		}
		out = append(out, id)
	}
	sortU64(out)
	return out
}

// execQuery runs one read-only query and encodes its answer. qs may be nil.
func execQuery(world []*Obj, op *Op, qs *Queries) Ans {
	o := world[op.Obj]
	switch op.Kind {
	case QContainsPoint:
		switch o.Kind {
		case OLoop:
			return Ans{b2u(o.Loop.ContainsPoint(op.P))}
		case OPolygon:
			return Ans{b2u(o.Poly.ContainsPoint(op.P))}
		default:
			q := cpq(o, op, qs)
			return Ans{b2u(q.Contains(op.P))}
		}
	case QContainsCell:
		if o.Kind == OLoop {
			return Ans{b2u(o.Loop.ContainsCell(op.Cell.Cell()))}
		}
		return Ans{b2u(o.Poly.ContainsCell(op.Cell.Cell()))}
	case QIntersectsCell:
		if o.Kind == OLoop {
			return Ans{b2u(o.Loop.IntersectsCell(op.Cell.Cell()))}
		}
		return Ans{b2u(o.Poly.IntersectsCell(op.Cell.Cell()))}
	case QRelContains:
		if o.Kind == OLoop {
			return Ans{b2u(o.Loop.Contains(world[op.Obj2].Loop))}
		}
		return Ans{b2u(o.Poly.Contains(world[op.Obj2].Poly))}
	case QRelIntersects:
		if o.Kind == OLoop {
			// (with the other read-only loop-to-loop questions; ContainsNested looks a vertex up in the index)
			b := world[op.Obj2].Loop
			return Ans{b2u(o.Loop.Intersects(b)), b2u(o.Loop.ContainsNested(b)), b2u(o.Loop.BoundaryEqual(b)), b2u(o.Loop.Equal(b))}
		}
		return Ans{b2u(o.Poly.Intersects(world[op.Obj2].Poly))}
	case QContainingShapes:
		q := cpq(o, op, qs)
		return Ans(shapeIDs(o.Index, q.ContainingShapes(op.P)))
	case QShapeContains:
		q := cpq(o, op, qs)
		sh := o.Index.Shape(int32(op.ShapeID))
		if sh == nil {
			return Ans{2}
		}
		return Ans{b2u(q.ShapeContains(sh, op.P))}
	case QCrossings:
		q := ceq(o, op, qs)
		sh := o.Index.Shape(int32(op.ShapeID))
		if sh == nil {
			return Ans{2}
		}
		es := q.Crossings(op.P, op.Q, sh, op.Cross)
		a := make(Ans, 0, len(es))
		for _, e := range es {
			a = append(a, uint64(e))
		}
		sortU64(a)
		return a
	case QCrossingsMap:
		q := ceq(o, op, qs)
		m := q.CrossingsEdgeMap(op.P, op.Q, op.Cross)
		var a Ans
		for sh, es := range m { // map: compared as a set (sorted below)
			id := shapeIDs(o.Index, []s2.Shape{sh})[0]
			for _, e := range es {
				a = append(a, id<<32|uint64(uint32(e)))
			}
		}
		sortU64(a)
		return a
	case QFindEdges:
		q := eq(o, op, qs)
		return encResults(targetCallsFor(op, world, qs).find(q))
	case QDistance:
		q := eq(o, op, qs)
		return Ans{math.Float64bits(float64(targetCallsFor(op, world, qs).dist(q)))}
	case QIsDistLess:
		q := eq(o, op, qs)
		return Ans{b2u(targetCallsFor(op, world, qs).less(q, op.Limit))}
	case QIsConsDist:
		q := eq(o, op, qs)
		return Ans{b2u(targetCallsFor(op, world, qs).consLE(q, op.Limit))}
	case QWalk:
		if op.Cross == 1 && o.Kind == OIndex {
			// backwards, from End()
			var a Ans
			it := o.Index.End()
			for it.Prev() {
				a = append(a, uint64(it.CellID()))
				if len(a) > 100000 {
					break
				}
			}
			for i, j := 0, len(a)-1; i < j; i, j = i+1, j-1 {
				a[i], a[j] = a[j], a[i]
			}
			return a
		}
		return Ans(cellList(o.index()))
	case QRegionBound:
		r := o.Index.Region()
		if qs != nil && op.Reuse >= 0 {
			r = qs.Reg[op.Reuse]
		}
		cu := r.CellUnionBound()
		a := make(Ans, 0, len(cu)+1)
		for _, c := range cu {
			a = append(a, uint64(c))
		}
		cb := r.CapBound()
		a = append(a, math.Float64bits(float64(cb.Radius())))
		return a
	case QBuild:
		o.Index.Build()
		return Ans{b2u(o.Index.IsFresh())}
	case QIsFreshNumEdges:
		_ = o.Index.IsFresh()
		return Ans{uint64(o.Index.NumEdges()), uint64(o.Index.Len())}
	case QMember:
		memberLoop := func(l *s2.Loop) Ans {
			c := op.Cell.Cell()
			return Ans{1, uint64(l.NumVertices()), b2u(l.IsHole()), b2u(l.ContainsPoint(op.P)), b2u(l.ContainsPoint(op.Q)),
				b2u(l.ContainsCell(c)), b2u(l.IntersectsCell(c))}
		}
		memberPoly := func(p *s2.Polygon) Ans {
			a := Ans{4, uint64(p.NumLoops()), b2u(p.ContainsPoint(op.P)), b2u(p.ContainsPoint(op.Q))}
			if n := p.NumLoops(); n > 0 {
				a = append(a, memberLoop(p.Loop(op.ShapeID%n))...)
			}
			return a
		}
		switch o.Kind {
		case OLoop:
			return memberLoop(o.Loop)
		case OPolygon:
			n := o.Poly.NumLoops()
			if n == 0 {
				return Ans{0}
			}
			return memberLoop(o.Poly.Loop(op.ShapeID % n))
		default:
			switch sh := o.Index.Shape(int32(op.ShapeID)).(type) {
			case nil:
				return Ans{2}
			case *s2.Loop:
				return memberLoop(sh)
			case *s2.Polygon:
				return memberPoly(sh)
			default:
				return Ans{3, uint64(sh.NumEdges())}
			}
		}
	case QMisc:
		switch o.Kind {
		case OLoop:
			l := o.Loop
			c := l.Centroid()
			a := Ans{math.Float64bits(l.Area()), math.Float64bits(c.X), math.Float64bits(c.Z), math.Float64bits(l.TurningAngle()), uint64(l.NumEdges()), b2u(l.IsNormalized()), b2u(l.ContainsOrigin()), b2u(l.Validate() == nil)}
			for i := 0; i < l.NumEdges() && i < 6; i++ {
				e := l.Edge(i)
				a = append(a, math.Float64bits(e.V0.X)^math.Float64bits(e.V1.Y))
			}
			rp := l.ReferencePoint()
			a = append(a, b2u(rp.Contained))
			// encoding is a read-only operation too (C13 only, see miscEncode); its bytes include
			// the bound, which may be looser after Invert, hence behind the mark
			if miscEncode {
				var eb bytes.Buffer
				if err := l.Encode(&eb); err != nil {
					a = append(a, 0xE44)
				}
				a = append(a, orderMark, fnvBytes(eb.Bytes()))
			}
			return a
		case OPolygon:
			p := o.Poly
			// order-independent part first: a polygon inverted twice may keep its loops in a
			// different order than a fresh one, which changes enumeration order and the order of
			// floating-point sums, not the region
			a := Ans{uint64(p.NumEdges()), uint64(p.NumLoops()), b2u(p.Validate() == nil), b2u(p.IsEmpty()), b2u(p.IsFull()), b2u(p.ReferencePoint().Contained)}
			var sizes []uint64
			for i := 0; i < p.NumLoops(); i++ {
				sizes = append(sizes, uint64(p.Loop(i).NumVertices())<<1|b2u(p.Loop(i).IsHole()))
			}
			sortU64(sizes)
			a = append(a, sizes...)
			a = append(a, orderMark)
			c := p.Centroid()
			a = append(a, math.Float64bits(p.Area()), math.Float64bits(c.X), math.Float64bits(c.Z))
			for i := 0; i < p.NumLoops() && i < 8; i++ {
				pa, ok := p.Parent(i)
				a = append(a, uint64(p.Loop(i).NumVertices()), b2u(p.Loop(i).IsHole()), uint64(uint32(pa)), b2u(ok), uint64(p.LastDescendant(i)))
			}
			for i := 0; i < p.NumEdges() && i < 6; i++ {
				e := p.Edge(i)
				a = append(a, math.Float64bits(e.V0.X)^math.Float64bits(e.V1.Y))
			}
			if miscEncode {
				var eb bytes.Buffer
				if err := p.Encode(&eb); err != nil {
					a = append(a, 0xE44)
				}
				a = append(a, fnvBytes(eb.Bytes()))
			}
			return a
		default:
			ix := o.Index
			a := Ans{uint64(ix.Len()), uint64(ix.NumEdges()), uint64(ix.NumEdgesUpTo(20))}
			for i := int32(0); i < int32(ix.Len())+2 && i < 8; i++ {
				sh := ix.Shape(i)
				if sh == nil {
					a = append(a, 7)
					continue
				}
				a = append(a, uint64(sh.NumEdges()), uint64(sh.Dimension()), b2u(sh.ReferencePoint().Contained), uint64(sh.NumChains()))
			}
			return a
		}
	case QBounds:
		var rb s2.Rect
		var cb s2.Cap
		var cu []s2.CellID
		if o.Kind == OLoop {
			rb, cb, cu = o.Loop.RectBound(), o.Loop.CapBound(), o.Loop.CellUnionBound()
		} else {
			rb, cb, cu = o.Poly.RectBound(), o.Poly.CapBound(), o.Poly.CellUnionBound()
		}
		a := Ans{math.Float64bits(rb.Lat.Lo), math.Float64bits(rb.Lat.Hi), math.Float64bits(rb.Lng.Lo), math.Float64bits(rb.Lng.Hi), math.Float64bits(float64(cb.Radius())), uint64(len(cu))}
		for _, c := range cu {
			a = append(a, uint64(c))
		}
		return a
	case QLocate:
		it := o.index().Iterator()
		found := it.LocatePoint(op.P)
		a := Ans{b2u(found)}
		if found {
			a = append(a, uint64(it.CellID()))
		}
		rel := it.LocateCellID(op.Cell.Cell().ID())
		a = append(a, uint64(rel))
		return a
	}
	panic("bad op kind")
}

func cpq(o *Obj, op *Op, qs *Queries) *s2.ContainsPointQuery {
	if qs != nil && op.Reuse >= 0 {
		return qs.CPQ[op.Reuse]
	}
	return s2.NewContainsPointQuery(o.Index, op.Model)
}

func ceq(o *Obj, op *Op, qs *Queries) *s2.CrossingEdgeQuery {
	if qs != nil && op.Reuse >= 0 {
		return qs.CEQ[op.Reuse]
	}
	return s2.NewCrossingEdgeQuery(o.Index)
}

func eq(o *Obj, op *Op, qs *Queries) *s2.EdgeQuery {
	if qs != nil && op.Reuse >= 0 {
		return qs.EQ[op.Reuse]
	}
	return op.EQ.newQuery(o.Index)
}

// ---- drawing ops ---------------------------------------------------------------------------

// probePoint draws a point that matters for object d: inside its disc, on a vertex, or anywhere.
func probePoint(g *gen.G, d *ObjDesc) s2.Point {
	t := g.T
	switch t.Uint(6) {
	case 0, 1, 2:
		return g.PointNear(d.Center, d.Radius*1.3)
	case 3:
		// exactly a vertex of the object, when it has one
		for _, sh := range d.Shapes {
			for _, l := range sh.Loops {
				if len(l) > 0 {
					return l[int(t.Uint(uint32(len(l))))]
				}
			}
			if len(sh.Pts) > 0 {
				return sh.Pts[int(t.Uint(uint32(len(sh.Pts))))]
			}
		}
		return g.Point()
	case 4:
		if t.Chance(300) {
			return s2.Point{Vector: d.Center.Vector.Mul(-1)}
		}
		// a point (numerically) on an edge of the object: the orientation predicates then cannot
		// decide in floating point and fall back to their exact-arithmetic path
		for _, sh := range d.Shapes {
			for _, l := range sh.Loops {
				if len(l) >= 2 {
					i := int(t.Uint(uint32(len(l))))
					a, b := l[i], l[(i+1)%len(l)]
					f := t.Float()
					v := a.Vector.Mul(1 - f).Add(b.Vector.Mul(f))
					if v.Norm2() > 0 {
						return s2.Point{Vector: v.Normalize()}
					}
				}
			}
		}
		return g.Point()
	}
	return g.Point()
}

// aimAtShape replaces the probe points of a question about ONE shape of an index by a point well
// inside that shape's extent and a point around its rim: the segment between them usually crosses
// the shape's boundary, so that crossing and containment answers are not "nothing" nearly always
// (an index's shapes may be spread over the whole sphere).
func aimAtShape(g *gen.G, op *Op, sd gen.ShapeDesc) {
	c, r := centerRadius([]gen.ShapeDesc{sd})
	if r > 1.2 {
		r = 1.2
	}
	op.P = g.PointNear(c, r*0.4)
	op.Q = g.PointNear(c, r*1.4)
}

func probeCell(g *gen.G, d *ObjDesc) CellArg {
	t := g.T
	if t.Chance(700) {
		return CellArg{P: g.PointNear(d.Center, d.Radius*1.3), L: int(t.Uint(20))}
	}
	return CellArg{P: g.Point(), L: int(t.Uint(31))}
}

func drawEQOpts(g *gen.G) EQOpts {
	t := g.T
	var o EQOpts
	o.Interiors = !t.Chance(300)
	o.Furthest = t.Chance(300)
	switch t.Uint(5) {
	case 0:
		o.MaxResults = 1
	case 1:
		o.MaxResults = 0
	case 2:
		o.MaxResults = 2 + int(t.Uint(4))
	case 3:
		o.MaxResults = 10 + int(t.Uint(50))
	default:
		o.MaxResults = 1
	}
	if t.Chance(300) {
		o.HasLimit = true
		o.Limit = s1.ChordAngleFromAngle(s1.Angle((0.01 + 60*t.Float()) * math.Pi / 180))
	}
	o.BruteForce = t.Chance(200)
	if t.Chance(120) {
		// all defaults, requested by passing nil
		o = EQOpts{Furthest: o.Furthest, Interiors: true, NilOpts: true}
	}
	return o
}

// indexKinds: the query families on a bare ShapeIndex with their base weights. A per-run mask
// (swarm testing: the workload mix varies from run to run) switches families off, so that some
// runs hammer one family on one long-lived query object instead of spreading thinly.
var indexKinds = []struct{ kind, weight int }{
	{QContainsPoint, 2}, {QContainingShapes, 1}, {QShapeContains, 1}, {QCrossings, 1}, {QCrossingsMap, 1},
	{QFindEdges, 3}, {QDistance, 1}, {QIsDistLess, 1}, {QIsConsDist, 1}, {QWalk, 1}, {QRegionBound, 1},
	{QBuild, 1}, {QLocate, 1}, {QIsFreshNumEdges, 1}, {QMisc, 1}, {QMember, 1},
}

// miscEncode: whether the Misc family also encodes the loop / polygon. On in C13 (one more read-only
// call whose answer must not depend on the history). Off in C14: the property lists the concurrent
// read-only QUERIES (containment, cell and region relations, distance, crossings); Encode is not
// among them, and Loop.Encode has a value receiver, i.e. it copies the whole struct, so a correct
// change that keeps an atomically updated counter in Loop would be reported as a data race between
// that copy and the atomic add (an independent negative control did exactly that: false alarm).
var miscEncode = false

// kindMask: bit i set = indexKinds[i] disabled for this run. 0 = everything enabled.
var kindMask uint32

// drawKindMask draws the per-run mix (0, the simplest choice, enables everything).
func drawKindMask(t *core.Tape) {
	kindMask = 0
	if t.Chance(600) {
		kindMask = t.Uint(1 << uint(len(indexKinds)))
		if kindMask == 1<<uint(len(indexKinds))-1 {
			kindMask = 0
		}
	}
}

func pickIndexKind(t *core.Tape) int {
	total := 0
	for i, k := range indexKinds {
		if kindMask&(1<<uint(i)) == 0 {
			total += k.weight
		}
	}
	x := int(t.Uint(uint32(total)))
	for i, k := range indexKinds {
		if kindMask&(1<<uint(i)) != 0 {
			continue
		}
		if x < k.weight {
			return k.kind
		}
		x -= k.weight
	}
	return QContainsPoint
}

// drawQueryOn draws the arguments of a query on one given index object (the caller sets the kind).
func drawQueryOn(g *gen.G, descs []*ObjDesc, obj int) Op {
	t := g.T
	op := Op{Reuse: -1, Obj: obj}
	d := descs[obj]
	op.P = probePoint(g, d)
	op.Q = probePoint(g, d)
	op.Cell = probeCell(g, d)
	op.Model = s2.VertexModel(t.Uint(3))
	op.ShapeID = int(t.Uint(uint32(imax(len(d.Shapes), 1))))
	op.Cross = s2.CrossingType(t.Uint(2))
	return op
}

// drawQuery draws one read-only query against the world description.
func drawQuery(g *gen.G, descs []*ObjDesc, allowRel bool) Op {
	t := g.T
	op := Op{Reuse: -1}
	op.Obj = int(t.Uint(uint32(len(descs))))
	d := descs[op.Obj]
	op.P = probePoint(g, d)
	op.Q = probePoint(g, d)
	op.Cell = probeCell(g, d)
	op.Model = s2.VertexModel(t.Uint(3))
	switch d.Kind {
	case OLoop, OPolygon:
		k := t.Uint(10)
		switch {
		case k < 4:
			op.Kind = QContainsPoint
		case k < 5:
			op.Kind = QContainsCell
		case k < 6:
			op.Kind = QIntersectsCell
		case k < 7:
			op.Kind = QMisc
			if d.Kind == OPolygon && t.Chance(500) {
				op.Kind = QMember
				op.ShapeID = int(t.Uint(24))
			}
		case k < 8:
			op.Kind = QBounds
		default:
			// relation with another object of the same kind, if any
			op.Kind = QContainsPoint
			if allowRel {
				var cands []int
				for i, e := range descs {
					if e.Kind == d.Kind {
						cands = append(cands, i)
					}
				}
				if len(cands) > 0 {
					op.Obj2 = cands[int(t.Uint(uint32(len(cands))))]
					op.Kind = QRelContains
					if t.Chance(500) {
						op.Kind = QRelIntersects
					}
				}
			}
		}
	default:
		nsh := len(d.Shapes)
		op.ShapeID = int(t.Uint(uint32(imax(nsh, 1))))
		op.Cross = s2.CrossingType(t.Uint(2))
		op.Kind = pickIndexKind(t)
		if (op.Kind == QCrossings || op.Kind == QShapeContains) && nsh > 0 && t.Chance(600) {
			aimAtShape(g, &op, d.Shapes[op.ShapeID%nsh])
		}
		if op.Kind >= QFindEdges && op.Kind <= QIsConsDist {
			op.EQ = drawEQOpts(g)
			op.TK = int(t.Uint(NumTKinds))
			if op.TK == TIndex {
				var cands []int
				for i, e := range descs {
					if e.Kind == OIndex {
						cands = append(cands, i)
					}
				}
				op.Obj2 = cands[int(t.Uint(uint32(len(cands))))]
			}
			op.Limit = s1.ChordAngleFromAngle(s1.Angle((0.01 + 90*t.Float()) * math.Pi / 180))
		}
	}
	return op
}

func imax(a, b int) int {
	if a > b {
		return a
	}
	return b
}
