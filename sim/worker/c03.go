package main

import (
	"fmt"
	"math"
	"math/big"

	"github.com/golang/geo/r3"
	"github.com/golang/geo/s2"

	"verifsim/gen"
)

func init() { register(&engine{name: "c03", tag: 3, run: runC03}) }

// exactDetSign returns the sign of det[a,b,c] computed in exact rational arithmetic.
func exactDetSign(a, b, c s2.Point) int {
	r := func(x float64) *big.Rat { return new(big.Rat).SetFloat64(x) }
	ax, ay, az := r(a.X), r(a.Y), r(a.Z)
	bx, by, bz := r(b.X), r(b.Y), r(b.Z)
	cx, cy, cz := r(c.X), r(c.Y), r(c.Z)
	mul := func(x, y *big.Rat) *big.Rat { return new(big.Rat).Mul(x, y) }
	sub := func(x, y *big.Rat) *big.Rat { return new(big.Rat).Sub(x, y) }
	// (a x b) . c
	px := sub(mul(ay, bz), mul(az, by))
	py := sub(mul(az, bx), mul(ax, bz))
	pz := sub(mul(ax, by), mul(ay, bx))
	d := new(big.Rat).Add(new(big.Rat).Add(mul(px, cx), mul(py, cy)), mul(pz, cz))
	return d.Sign()
}

// orient: exact sign where it is non-zero; the library's symbolic perturbation (RobustSign) where
// the three points are exactly coplanar with the origin. usedLib reports the latter.
func orient(a, b, c s2.Point, usedLib *bool) int {
	if s := exactDetSign(a, b, c); s != 0 {
		return s
	}
	*usedLib = true
	return int(s2.RobustSign(a, b, c))
}

// modelCrossing is the four-orientation criterion.
func modelCrossing(a, b, c, d s2.Point, usedLib *bool) s2.Crossing {
	if a == c || a == d || b == c || b == d {
		return s2.MaybeCross
	}
	if a == b || c == d {
		return s2.DoNotCross
	}
	acb := -orient(a, b, c, usedLib)
	bda := orient(a, b, d, usedLib)
	if acb != bda {
		return s2.DoNotCross
	}
	cbd := -orient(c, d, b, usedLib)
	if cbd != acb {
		return s2.DoNotCross
	}
	dac := orient(c, d, a, usedLib)
	if dac != acb {
		return s2.DoNotCross
	}
	return s2.Cross
}

func drawC03Pool(g *gen.G) []s2.Point {
	t := g.T
	n := 4 + int(t.Uint(9))
	pool := make([]s2.Point, 0, n+4)
	base := g.Point()
	for len(pool) < n {
		switch t.Uint(7) {
		case 0, 1:
			pool = append(pool, g.PointNear(base, 0.3))
		case 2:
			pool = append(pool, g.Point())
		case 3:
			// exactly on the great circle z = 0 (any three of these have determinant exactly 0)
			a := 2 * math.Pi * t.Float()
			pool = append(pool, s2.Point{Vector: r3.Vector{X: math.Cos(a), Y: math.Sin(a), Z: 0}})
		case 4:
			// a few ulps off that circle
			a := 2 * math.Pi * t.Float()
			z := (float64(t.Uint(9)) - 4) * 1.1102230246251565e-16
			pool = append(pool, s2.Point{Vector: r3.Vector{X: math.Cos(a), Y: math.Sin(a), Z: z}.Normalize()})
		case 5:
			// exactly on the meridian plane y = 0
			a := 2 * math.Pi * t.Float()
			pool = append(pool, s2.Point{Vector: r3.Vector{X: math.Cos(a), Y: 0, Z: math.Sin(a)}})
		default:
			// very close to an existing pool point
			if len(pool) > 0 {
				p := pool[int(t.Uint(uint32(len(pool))))]
				pool = append(pool, g.PointNear(p, 1e-9))
			} else {
				pool = append(pool, base)
			}
		}
	}
	return pool
}

func antipodal(a, b s2.Point) bool {
	return a.X == -b.X && a.Y == -b.Y && a.Z == -b.Z
}

func runC03(rc *runCtx) *RunResult {
	res := &RunResult{}
	g := gen.New()
	t := g.T
	pool := drawC03Pool(g)
	pick := func() s2.Point { return pool[int(t.Uint(uint32(len(pool))))] }
	// pickOther: usually a point different from x (otherwise most edges would be degenerate)
	pickOther := func(x s2.Point) s2.Point {
		p := pick()
		for tries := 0; p == x && tries < 3 && !t.Chance(100); tries++ {
			p = pick()
		}
		return p
	}
	// one to three crossers live at once and their calls interleave (zero draws: one crosser):
	// state that leaks from one crosser into another through the package shows up single-threaded
	type crosser struct {
		e       *s2.EdgeCrosser
		a, b    s2.Point
		cur     s2.Point // model state: the current chain vertex
		haveCur bool
	}
	ncr := 1 + int(t.Uint(3))
	crs := make([]*crosser, 0, ncr)
	for k := 0; k < ncr; k++ {
		ca := pick()
		cb := pickOther(ca)
		for tries := 0; antipodal(ca, cb) && tries < 4; tries++ {
			cb = pick()
		}
		if antipodal(ca, cb) {
			continue
		}
		cr := &crosser{a: ca, b: cb}
		if t.Chance(500) {
			c := pick()
			cr.e = s2.NewChainEdgeCrosser(ca, cb, c)
			cr.cur, cr.haveCur = c, true
			rc.log("crosser%d = NewChainEdgeCrosser(a,b,c) a=%v b=%v c=%v", k, ca, cb, c)
		} else {
			cr.e = s2.NewEdgeCrosser(ca, cb)
			rc.log("crosser%d = NewEdgeCrosser(a,b) a=%v b=%v", k, ca, cb)
		}
		crs = append(crs, cr)
	}
	if len(crs) == 0 {
		return res
	}
	if len(crs) > 1 {
		rc.inc("histories_with_several_crossers", 1)
	}
	var e *s2.EdgeCrosser
	var a, b, cur s2.Point
	haveCur := false
	maxCalls := uint32(40)
	if rc.tier == "thorough" {
		maxCalls = 120
	}
	n := 1 + int(t.Uint(maxCalls))
	sig := uint64(1469598103934665603)
	kinds := map[uint32]bool{}
	for i := 0; i < n; i++ {
		ci := 0
		if len(crs) > 1 {
			ci = int(t.Uint(uint32(len(crs))))
		}
		cr := crs[ci]
		e, a, b, cur, haveCur = cr.e, cr.a, cr.b, cr.cur, cr.haveCur
		op := t.Uint(5)
		if !haveCur && (op == 1 || op == 3) {
			op = 0 // chain calls need a current vertex
		}
		kinds[op] = true
		sig = (sig ^ uint64(op+1)) * 1099511628211
		var c, d s2.Point
		var gotSign s2.Crossing
		var gotBool bool
		isBool := false
		switch op {
		case 0:
			c = pick()
			d = pickOther(c)
			gotSign = e.CrossingSign(c, d)
			rc.log("step%d CrossingSign(c=%v, d=%v) = %v", i, c, d, gotSign)
		case 1:
			c, d = cur, pickOther(cur)
			gotSign = e.ChainCrossingSign(d)
			rc.log("step%d ChainCrossingSign(d=%v) = %v", i, d, gotSign)
		case 2:
			c = pick()
			d = pickOther(c)
			gotBool, isBool = e.EdgeOrVertexCrossing(c, d), true
			rc.log("step%d EdgeOrVertexCrossing(c=%v, d=%v) = %v", i, c, d, gotBool)
		case 3:
			c, d = cur, pickOther(cur)
			gotBool, isBool = e.EdgeOrVertexChainCrossing(d), true
			rc.log("step%d EdgeOrVertexChainCrossing(d=%v) = %v", i, d, gotBool)
		default:
			c = pick()
			e.RestartAt(c)
			cur, haveCur = c, true
			cr.cur, cr.haveCur = cur, haveCur
			rc.log("step%d crosser%d RestartAt(c=%v)", i, ci, c)
			rc.inc("op_restart", 1)
			continue
		}
		cur, haveCur = d, true
		cr.cur, cr.haveCur = cur, haveCur
		rc.inc("evals", 1)
		if antipodal(c, d) {
			continue // the edge CD is not defined
		}
		// model 1: the stateless test on a brand-new crosser
		wantSign := s2.CrossingSign(a, b, c, d)
		// model 2: the four-orientation criterion in exact arithmetic
		usedLib := false
		exactWant := modelCrossing(a, b, c, d, &usedLib)
		if usedLib {
			rc.inc("probe_exactly_collinear_triple", 1)
		}
		if c == a || c == b || d == a || d == b {
			rc.inc("probe_shared_vertex", 1)
		}
		if c == d || a == b {
			rc.inc("probe_degenerate_edge", 1)
		}
		// the shared-vertex rule on the quadruples the history visits: invariant under reversing
		// either edge, and when exactly one vertex is shared exactly one of VC(ab,cd), VC(cd,ab) holds
		if (a == b || c == d) && (a == c || a == d || b == c || b == d) {
			// documented: VC(a,a,c,d) == VC(a,b,c,c) == false
			rc.inc("probe_degenerate_edge_on_shared_vertex", 1)
			if s2.VertexCrossing(a, b, c, d) {
				res.Viol = &Violation{Kind: "vertex-crossing-rule", Site: "VertexCrossing",
					Detail: fmt.Sprintf("step%d: a degenerate edge never counts as a crossing, but VertexCrossing(a,b,c,d) is true (a=%v b=%v c=%v d=%v)", i, a, b, c, d)}
				res.Sig, res.Nontrivial = sig, true
				return res
			}
		}
		if a != b && c != d && (a == c || a == d || b == c || b == d) {
			vc := s2.VertexCrossing(a, b, c, d)
			if s2.VertexCrossing(b, a, c, d) != vc || s2.VertexCrossing(a, b, d, c) != vc || s2.VertexCrossing(b, a, d, c) != vc {
				res.Viol = &Violation{Kind: "vertex-crossing-not-symmetric", Site: "VertexCrossing",
					Detail: fmt.Sprintf("step%d: VertexCrossing changes when an edge is reversed (a=%v b=%v c=%v d=%v)", i, a, b, c, d)}
				res.Sig, res.Nontrivial = sig, true
				return res
			}
			shared := 0
			for _, x := range []s2.Point{a, b} {
				for _, y := range []s2.Point{c, d} {
					if x == y {
						shared++
					}
				}
			}
			if shared == 1 {
				rc.inc("probe_exactly_one_shared_vertex", 1)
				if vc == s2.VertexCrossing(c, d, a, b) {
					res.Viol = &Violation{Kind: "vertex-crossing-rule", Site: "VertexCrossing",
						Detail: fmt.Sprintf("step%d: edges AB and CD share exactly one vertex, but VertexCrossing(a,b,c,d) == VertexCrossing(c,d,a,b) == %v: exactly one of the two must count as a crossing (a=%v b=%v c=%v d=%v)", i, vc, a, b, c, d)}
					res.Sig, res.Nontrivial = sig, true
					return res
				}
			} else if shared == 2 && !vc {
				res.Viol = &Violation{Kind: "vertex-crossing-rule", Site: "VertexCrossing",
					Detail: fmt.Sprintf("step%d: identical or reversed edges must count as crossing (a=%v b=%v c=%v d=%v)", i, a, b, c, d)}
				res.Sig, res.Nontrivial = sig, true
				return res
			}
		}
		if isBool {
			wantBool := s2.EdgeOrVertexCrossing(a, b, c, d)
			if gotBool != wantBool {
				res.Viol = &Violation{Kind: "crosser-state-dependent", Site: "EdgeOrVertexCrossing",
					Detail: fmt.Sprintf("step%d: the crosser answered %v after its history; the stateless EdgeOrVertexCrossing(a,b,c,d) answers %v (a=%v b=%v c=%v d=%v)", i, gotBool, wantBool, a, b, c, d)}
				res.Sig, res.Nontrivial = sig, true
				return res
			}
			// exact model for the boolean: Cross -> true, DoNotCross -> false, MaybeCross -> vertex rule
			if exactWant != s2.MaybeCross && gotBool != (exactWant == s2.Cross) {
				res.Viol = &Violation{Kind: "crossing-not-exact", Site: "EdgeOrVertexCrossing",
					Detail: fmt.Sprintf("step%d: crosser answered %v; the four-orientation criterion in exact arithmetic gives %v (a=%v b=%v c=%v d=%v)", i, gotBool, exactWant, a, b, c, d)}
				res.Sig, res.Nontrivial = sig, true
				return res
			}
			continue
		}
		if gotSign != wantSign {
			res.Viol = &Violation{Kind: "crosser-state-dependent", Site: "CrossingSign",
				Detail: fmt.Sprintf("step%d: the crosser answered %v after its history; the stateless CrossingSign(a,b,c,d) answers %v (a=%v b=%v c=%v d=%v)", i, gotSign, wantSign, a, b, c, d)}
			res.Sig, res.Nontrivial = sig, true
			return res
		}
		if gotSign != exactWant {
			res.Viol = &Violation{Kind: "crossing-not-exact", Site: "CrossingSign",
				Detail: fmt.Sprintf("step%d: crosser answered %v; the four-orientation criterion in exact arithmetic gives %v (a=%v b=%v c=%v d=%v)", i, gotSign, exactWant, a, b, c, d)}
			res.Sig, res.Nontrivial = sig, true
			return res
		}
		// cross-invariants: reversing either edge, swapping the edges
		if r1, r2, r3 := s2.CrossingSign(b, a, c, d), s2.CrossingSign(a, b, d, c), s2.CrossingSign(c, d, a, b); r1 != gotSign || r2 != gotSign || r3 != gotSign {
			if !antipodal(a, b) {
				res.Viol = &Violation{Kind: "crossing-not-symmetric", Site: "CrossingSign",
					Detail: fmt.Sprintf("step%d: (a,b,c,d)=%v but (b,a,c,d)=%v (a,b,d,c)=%v (c,d,a,b)=%v (a=%v b=%v c=%v d=%v)", i, gotSign, r1, r2, r3, a, b, c, d)}
				res.Sig, res.Nontrivial = sig, true
				return res
			}
		}
		switch gotSign {
		case s2.Cross:
			rc.inc("outcome_cross", 1)
		case s2.MaybeCross:
			rc.inc("outcome_maybe", 1)
		default:
			rc.inc("outcome_donotcross", 1)
		}
	}
	res.Sig = sig ^ uint64(n)<<50 ^ uint64(len(pool))<<44 ^ math.Float64bits(pool[0].X) ^ math.Float64bits(a.Y)>>7
	res.Nontrivial = n >= 2 && len(kinds) >= 2
	return res
}
