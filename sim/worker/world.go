package main

import (
	"fmt"
	"math"
	"reflect"
	"sort"
	"unsafe"

	"github.com/golang/geo/s1"
	"github.com/golang/geo/s2"

	"verifsim/gen"
)

// ---- world description --------------------------------------------------------------------

const (
	OLoop = iota
	OPolygon
	OIndex
)

var objKindNames = [...]string{"Loop", "Polygon", "ShapeIndex"}

// ObjDesc is the recipe of one shared object.
type ObjDesc struct {
	Kind     int
	Shapes   []gen.ShapeDesc // OLoop/OPolygon: one entry; OIndex: the shapes in id order
	MaxEdges int             // index fan-out knob, drawn per run
	Center   s2.Point        // where the object lives (for drawing nearby probes)
	Radius   s1.Angle
	// Alias (OIndex, C14 only): Alias[i] >= 0 means shape i of this index IS the Loop/Polygon of
	// world object Alias[i] (the same Go object is queried directly and through this index)
	Alias []int
}

// Obj is a built object.
type Obj struct {
	Kind   int
	Loop   *s2.Loop
	Poly   *s2.Polygon
	Index  *s2.ShapeIndex
	Shapes []s2.Shape // OIndex: shapes added so far, in id order
	Desc   *ObjDesc
	World  []*Obj // the world this object belongs to (for aliased shapes)
	// C13: which description each live shape was built from, and shape objects that were in the
	// index before a Reset (a caller may add the very same object again)
	ShapeIdx []int
	retired  map[int]s2.Shape
}

// indexOfLoop / indexOfPolygon reach the embedded index without depending on private names at
// compile time (the field is looked up by type).
func embeddedIndex(v any) *s2.ShapeIndex {
	rv := reflect.ValueOf(v).Elem()
	want := reflect.TypeOf((*s2.ShapeIndex)(nil))
	for i := 0; i < rv.NumField(); i++ {
		f := rv.Field(i)
		if f.Type() == want {
			return (*s2.ShapeIndex)(unsafe.Pointer(f.Pointer()))
		}
	}
	return nil
}

// setMaxEdgesPerCell sets the fan-out knob of an index if the field exists (a tuning knob that
// correctness must not depend on).
func setMaxEdgesPerCell(ix *s2.ShapeIndex, n int) bool {
	if ix == nil || n <= 0 {
		return false
	}
	rv := reflect.ValueOf(ix).Elem()
	f := rv.FieldByName("maxEdgesPerCell")
	if !f.IsValid() || f.Kind() != reflect.Int {
		return false
	}
	*(*int)(unsafe.Pointer(f.UnsafeAddr())) = n
	return true
}

func (o *Obj) index() *s2.ShapeIndex {
	switch o.Kind {
	case OLoop:
		return embeddedIndex(o.Loop)
	case OPolygon:
		return embeddedIndex(o.Poly)
	}
	return o.Index
}

// buildObj makes a fresh object from its recipe. nShapes limits how many shapes of an index are
// added (the rest can be added later by the history).
func buildObj(d *ObjDesc, nShapes int) *Obj { return buildObjIn(d, nShapes, nil) }

func buildObjIn(d *ObjDesc, nShapes int, world []*Obj) *Obj {
	o := &Obj{Kind: d.Kind, Desc: d, World: world}
	switch d.Kind {
	case OLoop:
		o.Loop = d.Shapes[0].BuildLoop()
		setMaxEdgesPerCell(embeddedIndex(o.Loop), d.MaxEdges)
	case OPolygon:
		o.Poly = d.Shapes[0].BuildPolygon()
		setMaxEdgesPerCell(embeddedIndex(o.Poly), d.MaxEdges)
	case OIndex:
		o.Index = s2.NewShapeIndex()
		setMaxEdgesPerCell(o.Index, d.MaxEdges)
		for i := 0; i < nShapes && i < len(d.Shapes); i++ {
			o.addShape(i)
		}
	}
	return o
}

func (o *Obj) addShape(i int) { o.addShapeReusing(i, false) }

// resetIndex resets the index and remembers the shape objects it held.
func (o *Obj) resetIndex() {
	if o.retired == nil {
		o.retired = map[int]s2.Shape{}
	}
	for k, sh := range o.Shapes {
		if k < len(o.ShapeIdx) {
			o.retired[o.ShapeIdx[k]] = sh
		}
	}
	o.Index.Reset()
	o.Shapes = nil
	o.ShapeIdx = nil
}

// addShapeReusing adds shape i; with reuse it adds the same Go object that was in the index before
// the last Reset, when there is one.
func (o *Obj) addShapeReusing(i int, reuse bool) {
	var sh s2.Shape
	if old, ok := o.retired[i]; ok && reuse {
		sh = old
		delete(o.retired, i)
		o.Shapes = append(o.Shapes, sh)
		o.ShapeIdx = append(o.ShapeIdx, i)
		o.Index.Add(sh)
		return
	}
	o.ShapeIdx = append(o.ShapeIdx, i)
	if a := o.aliasOf(i); a != nil {
		sh = a
	} else {
		sh = o.Desc.Shapes[i].BuildShape()
	}
	o.Shapes = append(o.Shapes, sh)
	o.Index.Add(sh)
}

// aliasOf returns the shared Loop/Polygon that shape i of this index stands for, if any.
func (o *Obj) aliasOf(i int) s2.Shape {
	if o.World == nil || i >= len(o.Desc.Alias) || o.Desc.Alias[i] < 0 {
		return nil
	}
	t := o.World[o.Desc.Alias[i]]
	if t == nil {
		return nil
	}
	switch t.Kind {
	case OLoop:
		return t.Loop
	case OPolygon:
		return t.Poly
	}
	return nil
}

// cellList walks the index with a fresh iterator (this builds it).
func cellList(ix *s2.ShapeIndex) []uint64 {
	var out []uint64
	if ix == nil {
		return out
	}
	for it := ix.Iterator(); !it.Done(); it.Next() {
		out = append(out, uint64(it.CellID()))
	}
	return out
}

func eqU64(a, b []uint64) bool {
	if len(a) != len(b) {
		return false
	}
	for i := range a {
		if a[i] != b[i] {
			return false
		}
	}
	return true
}

func strictlyIncreasing(a []uint64) bool {
	for i := 1; i < len(a); i++ {
		if a[i] <= a[i-1] {
			return false
		}
	}
	return true
}

func sortU64(a []uint64) {
	sort.Slice(a, func(i, j int) bool { return a[i] < a[j] })
}

func describeObj(d *ObjDesc) string {
	s := objKindNames[d.Kind] + "{"
	for i, sh := range d.Shapes {
		if i > 0 {
			s += ","
		}
		sp := ""
		if sh.Special == gen.SpEmpty {
			sp = ":empty"
		} else if sh.Special == gen.SpFull {
			sp = ":full"
		}
		s += fmt.Sprintf("%s%s/%dv/%dl", gen.KindName(sh.Kind), sp, sh.NumVertices(), len(sh.Loops))
	}
	return s + fmt.Sprintf("}maxEdges=%d", d.MaxEdges)
}

// centerRadius computes a disc that covers the described shapes (for drawing nearby probes).
func centerRadius(shapes []gen.ShapeDesc) (s2.Point, s1.Angle) {
	var sum s2.Point
	n := 0
	for _, sh := range shapes {
		for _, l := range sh.Loops {
			for _, p := range l {
				sum.Vector = sum.Vector.Add(p.Vector)
				n++
			}
		}
		for _, p := range sh.Pts {
			sum.Vector = sum.Vector.Add(p.Vector)
			n++
		}
	}
	if n == 0 || sum.Vector.Norm2() < 1e-12 {
		return s2.PointFromCoords(1, 0, 0), s1.Angle(0.5)
	}
	c := s2.Point{Vector: sum.Vector.Normalize()}
	var r s1.Angle
	for _, sh := range shapes {
		for _, l := range sh.Loops {
			for _, p := range l {
				if a := c.Distance(p); a > r {
					r = a
				}
			}
		}
		for _, p := range sh.Pts {
			if a := c.Distance(p); a > r {
				r = a
			}
		}
	}
	if r < 1e-4 {
		r = 1e-4
	}
	if r > 1.2 {
		r = 1.2
	}
	return c, r
}

// drawWorld draws 1..maxObjs shared objects.
func drawWorld(g *gen.G, maxObjs, maxV int) []*ObjDesc {
	t := g.T
	n := 1 + int(t.Uint(uint32(maxObjs)))
	out := make([]*ObjDesc, n)
	for i := range out {
		d := &ObjDesc{}
		// later objects are usually placed on top of the first one, so that relations between
		// objects and index targets are not trivially "far apart"
		g.Anchor = nil
		if i > 0 && t.Chance(650) {
			c := out[0].Center
			g.Anchor = &c
			g.AnchorRadius = math.Tan(float64(out[0].Radius))
			if g.AnchorRadius > 1 {
				g.AnchorRadius = 1
			}
		}
		switch t.Uint(3) {
		case 0:
			d.Kind = OLoop
			d.Shapes = []gen.ShapeDesc{g.LoopDesc(maxV)}
		case 1:
			d.Kind = OPolygon
			d.Shapes = []gen.ShapeDesc{g.PolygonDesc(maxV)}
		default:
			d.Kind = OIndex
			ns := 1 + int(t.Uint(4))
			for j := 0; j < ns; j++ {
				d.Shapes = append(d.Shapes, g.AnyShapeDesc(maxV/2+3))
			}
		}
		// 0 -> library default (field left alone); otherwise 1..20
		d.MaxEdges = int(t.Uint(21))
		d.Center, d.Radius = centerRadius(d.Shapes)
		out[i] = d
	}
	g.Anchor = nil
	return out
}
