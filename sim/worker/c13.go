package main

import (
	"bytes"
	"fmt"

	"github.com/golang/geo/s1"
	"github.com/golang/geo/s2"

	"verifsim/core"
	"verifsim/gen"
)

func init() { register(&engine{name: "c13", tag: 13, run: runC13}) }

// history step kinds
const (
	HQuery = iota
	HAdd
	HBuild
	HReset
	HInvert
	HNormalize
	HCodec // encode to the medium, decode into a new value, continue with it
	HNewEQ
	HNewCEQ
	HNewCPQ
	HNewTarget // a long-lived distance target object, reused by later EdgeQuery calls
	HSetOpts   // the caller changes the options of a live EdgeQuery through the options object it kept
	HNewRegion // a long-lived ShapeIndexRegion (holds a query and an iterator of its own)
	NumHKinds
)

var hNames = [...]string{"Query", "Add", "Build", "Reset", "Invert", "Normalize", "EncodeDecode", "NewEdgeQuery", "NewCrossingEdgeQuery", "NewContainsPointQuery", "NewTarget", "SetOptions", "NewRegion"}

// mutation kinds recorded for loops/polygons
const (
	MInvert = iota
	MNormalize
	MCodec
)

type HStep struct {
	Kind  int
	Obj   int
	Shape int // HAdd: index into the object's shape descriptions
	Q     Op
	EQ    EQOpts
	Model s2.VertexModel
	// symbolic state of the objects the query touches, at the time of the query
	LiveA, LiveB []int
	MutsA, MutsB []int
	// captured from the subject at query time
	curVerts  []s2.Point
	curLoops  [][]s2.Point
	haveLoops bool
	SameObj   bool   // HAdd: add the very shape object that was in the index before the last Reset
	AltEQ     EQOpts // the options the reused query was created with, when they were changed since
	HasAlt    bool
	subjCells []uint64
	cellsOK   bool
	ans       Ans
	done      bool
}

func (h *HStep) String() string {
	switch h.Kind {
	case HQuery:
		return h.Q.String()
	case HAdd:
		return fmt.Sprintf("Add(obj%d, shape#%d)", h.Obj, h.Shape)
	case HNewEQ:
		return fmt.Sprintf("NewEdgeQuery(obj%d,%s)", h.Obj, h.EQ)
	case HNewCPQ:
		return fmt.Sprintf("NewContainsPointQuery(obj%d,model=%d)", h.Obj, int(h.Model))
	case HSetOpts:
		return fmt.Sprintf("SetOptions(q%d,%s)", h.Shape, h.EQ)
	case HNewTarget:
		far := "Min"
		if h.Q.EQ.Furthest {
			far = "Max"
		}
		s := fmt.Sprintf("New%sDistanceTarget(%s", far, tNames[h.Q.TK])
		if h.Q.TK == TIndex {
			s += fmt.Sprintf(":obj%d", h.Q.Obj2)
		}
		return s + ")"
	}
	return fmt.Sprintf("%s(obj%d)", hNames[h.Kind], h.Obj)
}

// symbolic state tracked while drawing
type symObj struct {
	live []int // OIndex: desc indices of the shapes currently in the index, in id order
	muts []int // OLoop/OPolygon: mutation kinds applied so far
	next int   // next desc index to add
}

type symQ struct {
	eqObj  []int
	eqOpt  []EQOpts
	eqOK   []bool
	ceqObj []int
	ceqOK  []bool
	cpqObj []int
	cpqMod []s2.VertexModel
	cpqOK  []bool
	eqOpt0 []EQOpts // options at creation
	tgtOp  []Op     // template: TK, P, Q, Cell, Obj2, EQ.Furthest
	tgtOK  []bool
	regObj []int
	regOK  []bool
	// the shape (index into the object's shape descriptions) each long-lived CrossingEdgeQuery /
	// ContainsPointQuery was last asked about by id; absent = none yet
	ceqLast map[int]int
	cpqLast map[int]int
}

func cloneInts(a []int) []int { return append([]int(nil), a...) }

func drawHistory(g *gen.G, descs []*ObjDesc, maxSteps int) []HStep {
	t := g.T
	syms := make([]symObj, len(descs))
	var sq symQ
	sq.ceqLast, sq.cpqLast = map[int]int{}, map[int]int{}
	lastArgs := map[int][]Op{}
	n := 1 + int(t.Uint(uint32(maxSteps)))
	steps := make([]HStep, 0, n)
	// focus: right after a long-lived query object is created, the next few steps mostly ask it
	// questions of its own family, so that reuse sequences are dense enough to hit state carried
	// from one call to the next
	focusFam, focusID, focusObj, focusLeft := -1, -1, -1, 0
	// forced: step kinds that must come next on forcedObj (the refill after a Reset, see HReset)
	var forced []int
	forcedObj := -1
	// optFocus: the long-lived EdgeQuery whose options the caller has just changed; its next few
	// questions are ones whose answer tells the old options from the new (a point well inside a
	// polygon of the index, small limits), asked through every kind of call: a query that follows
	// the change in one method and not in another shows only when two calls can both tell
	optFocus, optFocusLeft := -1, 0
	for len(steps) < n {
		obj := int(t.Uint(uint32(len(descs))))
		forceFocus := false
		if len(forced) > 0 {
			obj = forcedObj
		} else if focusLeft > 0 {
			focusLeft--
			if t.Chance(750) {
				switch focusFam {
				case HNewEQ:
					forceFocus = sq.eqOK[focusID]
				case HNewCEQ:
					forceFocus = sq.ceqOK[focusID]
				case HNewCPQ:
					forceFocus = sq.cpqOK[focusID]
				case HNewRegion:
					forceFocus = sq.regOK[focusID]
				}
				if forceFocus {
					obj = focusObj
				}
			}
		}
		d := descs[obj]
		sy := &syms[obj]
		var h HStep
		h.Obj = obj
		k := t.Uint(20)
		if forceFocus {
			k = 0 // a query
			if focusFam == HNewEQ && !sq.eqOpt0[focusID].NilOpts && t.Chance(200) {
				// ... or the caller changes the options of the focused query between two questions
				var h HStep
				h.Kind, h.Obj, h.Shape = HSetOpts, focusObj, focusID
				h.EQ = drawEQOpts(g)
				h.EQ.NilOpts = false
				h.EQ.Furthest = sq.eqOpt[focusID].Furthest
				if t.Chance(600) {
					// the change that every kind of call can tell from its answer: interiors on/off
					h.EQ.Interiors = !sq.eqOpt[focusID].Interiors
				}
				sq.eqOpt[focusID] = h.EQ
				steps = append(steps, h)
				focusLeft += 2
				optFocus, optFocusLeft = focusID, 3+int(t.Uint(3))
				continue
			}
		}
		if d.Kind == OIndex {
			switch {
			case k < 8:
				h.Kind = HQuery
			case k < 12:
				h.Kind = HAdd
			case k < 14:
				h.Kind = HBuild
			case k < 15:
				h.Kind = HReset
			case k < 16:
				h.Kind = HNewEQ
			case k < 17:
				h.Kind = HNewTarget
			case k < 18:
				h.Kind = HNewCEQ
			default:
				h.Kind = HNewCPQ
			}
		} else {
			switch {
			case k < 11:
				h.Kind = HQuery
			case k < 16:
				h.Kind = HInvert
			case k < 17:
				h.Kind = HNormalize
				if d.Kind != OLoop {
					h.Kind = HInvert
				}
			default:
				h.Kind = HCodec
			}
		}
		inRefill := false
		if len(forced) > 0 {
			h.Kind, forced, inRefill = forced[0], forced[1:], true
		}
		switch h.Kind {
		case HBuild:
			if d.Kind == OIndex {
				sq.resume(obj)
				// the interesting moment for an iterator-holding query is right after the rebuild
				var fams, ids []int
				for i := range sq.cpqObj {
					if sq.cpqObj[i] == obj {
						fams, ids = append(fams, HNewCPQ), append(ids, i)
					}
				}
				for i := range sq.ceqObj {
					if sq.ceqObj[i] == obj {
						fams, ids = append(fams, HNewCEQ), append(ids, i)
					}
				}
				for i := range sq.regObj {
					if sq.regObj[i] == obj {
						fams, ids = append(fams, HNewRegion), append(ids, i)
					}
				}
				if len(ids) > 0 && t.Chance(700) {
					k := int(t.Uint(uint32(len(ids))))
					focusFam, focusID, focusObj, focusLeft = fams[k], ids[k], obj, 1+int(t.Uint(4))
				}
			}
		case HAdd:
			h.Shape = sy.next % len(d.Shapes)
			h.SameObj = t.Chance(650) || inRefill
			sy.next++
			sy.live = append(sy.live, h.Shape)
			sq.invalidate(obj)
		case HReset:
			// Often a Reset is followed at once by a refill that brings back, as the very same
			// object but under another id, the shape that a long-lived query on this index was
			// asked about last, and by a Build (after which such a query may be used again and is
			// focused on, see HBuild): state keyed by a shape or by an id shows only then.
			last, have := -1, false
			for i, o := range sq.ceqObj {
				if l, ok := sq.ceqLast[i]; ok && o == obj {
					last, have = l, true
				}
			}
			for i, o := range sq.cpqObj {
				if l, ok := sq.cpqLast[i]; ok && o == obj && (!have || t.Chance(500)) {
					last, have = l, true
				}
			}
			if have && len(d.Shapes) > 1 && t.Chance(700) {
				m := ((last-sy.next)%len(d.Shapes)+len(d.Shapes))%len(d.Shapes) + 1
				forced, forcedObj = nil, obj
				for i := 0; i < m; i++ {
					forced = append(forced, HAdd)
				}
				forced = append(forced, HBuild)
			}
			sy.live = nil
			sq.invalidate(obj)
		case HInvert:
			sy.muts = append(sy.muts, MInvert)
		case HNormalize:
			sy.muts = append(sy.muts, MNormalize)
		case HCodec:
			sy.muts = append(sy.muts, MCodec)
		case HNewEQ:
			h.EQ = drawEQOpts(g)
			if t.Chance(200) {
				h.EQ.MaxError = s1.ChordAngleFromAngle(s1.Angle(t.Float() * 0.05))
				h.EQ.NilOpts = false
			}
			if r := sq.pickEQ(t, obj); r >= 0 && !sq.eqOpt0[r].NilOpts && t.Chance(400) {
				// change the options of an existing query instead (same sense: closest/furthest)
				h.Kind = HSetOpts
				h.Shape = r
				h.EQ.NilOpts = false
				h.EQ.Furthest = sq.eqOpt[r].Furthest
				if t.Chance(600) {
					h.EQ.Interiors = !sq.eqOpt[r].Interiors
				}
				sq.eqOpt[r] = h.EQ
				focusFam, focusID, focusObj, focusLeft = HNewEQ, r, obj, 2+int(t.Uint(3))
				optFocus, optFocusLeft = r, 3+int(t.Uint(3))
				break
			}
			sq.eqObj = append(sq.eqObj, obj)
			sq.eqOpt = append(sq.eqOpt, h.EQ)
			sq.eqOpt0 = append(sq.eqOpt0, h.EQ)
			sq.eqOK = append(sq.eqOK, true)
			focusFam, focusID, focusObj, focusLeft = HNewEQ, len(sq.eqObj)-1, obj, 2+int(t.Uint(5))
		case HNewTarget:
			tq := drawQueryOn(g, descs, obj)
			tq.TK = int(t.Uint(NumTKinds))
			if t.Chance(500) {
				tq.TK = TIndex // the target kind that has state of its own
			}
			tq.EQ.Furthest = t.Chance(300)
			if tq.TK == TIndex {
				var cands []int
				for i, e := range descs {
					if e.Kind == OIndex {
						cands = append(cands, i)
					}
				}
				tq.Obj2 = cands[int(t.Uint(uint32(len(cands))))]
			}
			h.Q = tq
			sq.tgtOp = append(sq.tgtOp, tq)
			sq.tgtOK = append(sq.tgtOK, true)
		case HNewCEQ:
			sq.ceqObj = append(sq.ceqObj, obj)
			sq.ceqOK = append(sq.ceqOK, true)
			focusFam, focusID, focusObj, focusLeft = HNewCEQ, len(sq.ceqObj)-1, obj, 2+int(t.Uint(5))
		case HNewCPQ:
			if t.Chance(400) {
				h.Kind = HNewRegion
				sq.regObj = append(sq.regObj, obj)
				sq.regOK = append(sq.regOK, true)
				focusFam, focusID, focusObj, focusLeft = HNewRegion, len(sq.regObj)-1, obj, 1+int(t.Uint(3))
				break
			}
			h.Model = s2.VertexModel(t.Uint(3))
			sq.cpqObj = append(sq.cpqObj, obj)
			sq.cpqMod = append(sq.cpqMod, h.Model)
			sq.cpqOK = append(sq.cpqOK, true)
			focusFam, focusID, focusObj, focusLeft = HNewCPQ, len(sq.cpqObj)-1, obj, 2+int(t.Uint(5))
		case HQuery:
			// prefer reusing a long-lived query when one exists
			h.Q = drawQuery(g, descs, true)
			q := &h.Q
			if forceFocus {
				// same object, a kind of the focused family, on the focused long-lived query
				nq := drawQueryOn(g, descs, focusObj)
				*q = nq
				switch focusFam {
				case HNewEQ:
					q.Kind = []int{QFindEdges, QFindEdges, QDistance, QIsDistLess, QIsConsDist}[t.Uint(5)]
					q.EQ = sq.eqOpt[focusID]
					q.TK = int(t.Uint(NumTKinds))
					if q.TK == TIndex {
						q.Obj2 = focusObj
					}
					q.Limit = s1.ChordAngleFromAngle(s1.Angle(0.0002 + 1.5*t.Float()))
					if optFocusLeft > 0 && focusID == optFocus {
						optFocusLeft--
						if live := syms[focusObj].live; len(live) > 0 && t.Chance(750) {
							q.TK = TPoint
							var probe Op
							aimAtShape(g, &probe, descs[focusObj].Shapes[live[int(t.Uint(uint32(len(live))))]])
							q.P = probe.P
							q.Kind = []int{QFindEdges, QDistance, QIsDistLess, QIsConsDist}[t.Uint(4)]
							if t.Chance(600) {
								q.Limit = s1.ChordAngleFromAngle(s1.Angle(1e-7 + 0.01*t.Float()))
							}
						}
					}
				case HNewCEQ:
					q.Kind = []int{QCrossings, QCrossingsMap}[t.Uint(2)]
				case HNewCPQ:
					q.Kind = []int{QShapeContains, QContainsPoint, QContainingShapes, QShapeContains}[t.Uint(4)]
					q.Model = sq.cpqMod[focusID]
				case HNewRegion:
					q.Kind = QRegionBound
				}
				q.Reuse = focusID
			}
			od := descs[q.Obj]
			if od.Kind == OIndex {
				nlive := len(syms[q.Obj].live)
				if (q.Kind == QShapeContains || q.Kind == QCrossings) && q.ShapeID >= nlive {
					if nlive == 0 {
						if q.Kind == QCrossings {
							q.Kind = QCrossingsMap
						} else {
							q.Kind = QContainsPoint
						}
					} else {
						q.ShapeID = q.ShapeID % nlive
					}
				}
				if !forceFocus && t.Chance(600) {
					switch q.Kind {
					case QFindEdges, QDistance, QIsDistLess, QIsConsDist:
						if r := sq.pickEQ(t, q.Obj); r >= 0 {
							q.Reuse = r
							q.EQ = sq.eqOpt[r]
						}
					case QCrossings, QCrossingsMap:
						if r := pickOK(t, sq.ceqObj, sq.ceqOK, q.Obj); r >= 0 {
							q.Reuse = r
						}
					case QContainsPoint, QContainingShapes, QShapeContains:
						if r := pickOK(t, sq.cpqObj, sq.cpqOK, q.Obj); r >= 0 {
							q.Reuse = r
							q.Model = sq.cpqMod[r]
						}
					case QRegionBound:
						if r := pickOK(t, sq.regObj, sq.regOK, q.Obj); r >= 0 {
							q.Reuse = r
						}
					}
				}
				if q.Reuse >= 0 && (q.Kind == QCrossings || q.Kind == QShapeContains) {
					// ask a long-lived query about the shape it was asked about last, wherever that
					// shape lives now: after a Reset and a refill in another order the same shape
					// object has another id (state keyed by the shape shows only then)
					lastOf := sq.ceqLast
					if q.Kind == QShapeContains {
						lastOf = sq.cpqLast
					}
					live := syms[q.Obj].live
					if last, ok := lastOf[q.Reuse]; ok && forceFocus && t.Chance(600) {
						for id := len(live) - 1; id >= 0; id-- {
							if live[id] == last {
								q.ShapeID = id
								break
							}
						}
					}
					if q.ShapeID < len(live) {
						lastOf[q.Reuse] = live[q.ShapeID]
					}
				}
				if live := syms[q.Obj].live; (q.Kind == QCrossings || q.Kind == QShapeContains) && q.ShapeID < len(live) && t.Chance(600) {
					// (ids follow the order of addition, which is not the order of the descriptions)
					aimAtShape(g, q, od.Shapes[live[q.ShapeID]])
				}
				if q.Kind == QFindEdges || q.Kind == QDistance || q.Kind == QIsDistLess || q.Kind == QIsConsDist {
					// a long-lived target of the right sense (closest/furthest), when there is one
					var tc []int
					for i := range sq.tgtOp {
						if sq.tgtOK[i] && sq.tgtOp[i].EQ.Furthest == q.EQ.Furthest {
							tc = append(tc, i)
						}
					}
					if len(tc) > 0 && t.Chance(500) {
						ti := tc[int(t.Uint(uint32(len(tc))))]
						tp := sq.tgtOp[ti]
						q.TK, q.P, q.Q, q.Cell, q.Obj2 = tp.TK, tp.P, tp.Q, tp.Cell, tp.Obj2
						q.ReuseT = ti + 1
					}
					if q.Reuse < 0 && t.Chance(150) {
						q.EQ.NilOpts = false
						q.EQ.MaxError = s1.ChordAngleFromAngle(s1.Angle(t.Float() * 0.05))
					}
				}
			}
			if od.Kind == OIndex {
				// ask about an earlier edge / point / cell of this object again: per-query caches
				// keyed by their arguments only show up when arguments repeat
				recycle := uint32(300)
				if forceFocus {
					recycle = 550
				}
				if prev := lastArgs[q.Obj]; len(prev) > 0 && q.ReuseT == 0 && t.Chance(recycle) {
					pa := prev[int(t.Uint(uint32(len(prev))))]
					q.P, q.Q, q.Cell = pa.P, pa.Q, pa.Cell
				}
				lastArgs[q.Obj] = append(lastArgs[q.Obj], *q)
				if q.Reuse < 0 && (q.Kind == QBuild || q.Kind == QWalk || q.Kind == QLocate) {
					sq.resume(q.Obj)
				}
			}
			if q.Reuse >= 0 && (q.Kind == QFindEdges || q.Kind == QDistance || q.Kind == QIsDistLess || q.Kind == QIsConsDist) && sq.eqOpt0[q.Reuse] != sq.eqOpt[q.Reuse] {
				h.AltEQ, h.HasAlt = sq.eqOpt0[q.Reuse], true
			}
			h.Obj = q.Obj
			h.LiveA, h.MutsA = cloneInts(syms[q.Obj].live), cloneInts(syms[q.Obj].muts)
			h.LiveB, h.MutsB = cloneInts(syms[q.Obj2].live), cloneInts(syms[q.Obj2].muts)
		}
		steps = append(steps, h)
		if h.Kind == HQuery && t.Chance(120) && len(steps) < n {
			// the same question again, immediately: the answer must not change
			steps = append(steps, steps[len(steps)-1])
		}
	}
	return steps
}

func (sq *symQ) invalidate(obj int) {
	// EdgeQuery has Reset() for this. The other two query types hold an iterator and have no
	// reset method: they are not used while the index has unapplied updates (iterator
	// invalidation, as in every S2 implementation), and are used again once a Build (or a cell
	// walk / locate, which builds) has made the index fresh: see resume.
	for i := range sq.ceqObj {
		if sq.ceqObj[i] == obj {
			sq.ceqOK[i] = false
		}
	}
	for i := range sq.cpqObj {
		if sq.cpqObj[i] == obj {
			sq.cpqOK[i] = false
		}
	}
	for i := range sq.regObj {
		if sq.regObj[i] == obj {
			sq.regOK[i] = false
		}
	}
	// a ShapeIndex target keeps a private query on its index and has no reset: it is not used
	// again once that index changed
	for i := range sq.tgtOp {
		if sq.tgtOp[i].TK == TIndex && sq.tgtOp[i].Obj2 == obj {
			sq.tgtOK[i] = false
		}
	}
}

// resume: the index of obj is certainly fresh again; long-lived iterator-holding queries on it may
// be asked new questions.
func (sq *symQ) resume(obj int) {
	for i := range sq.ceqObj {
		if sq.ceqObj[i] == obj {
			sq.ceqOK[i] = true
		}
	}
	for i := range sq.cpqObj {
		if sq.cpqObj[i] == obj {
			sq.cpqOK[i] = true
		}
	}
	for i := range sq.regObj {
		if sq.regObj[i] == obj {
			sq.regOK[i] = true
		}
	}
}

func (sq *symQ) pickEQ(t *core.Tape, obj int) int {
	return pickOK(t, sq.eqObj, sq.eqOK, obj)
}

func pickOK(t *core.Tape, objs []int, ok []bool, obj int) int {
	var c []int
	for i := range objs {
		if objs[i] == obj && ok[i] {
			c = append(c, i)
		}
	}
	if len(c) == 0 {
		return -1
	}
	return c[int(t.Uint(uint32(len(c))))]
}

// applyMut applies one geometry mutation to a loop/polygon object.
func applyMut(o *Obj, m int) {
	switch m {
	case MInvert:
		if o.Kind == OLoop {
			o.Loop.Invert()
		} else {
			o.Poly.Invert()
		}
	case MNormalize:
		if o.Kind == OLoop {
			o.Loop.Normalize()
		}
	case MCodec:
		var buf bytes.Buffer
		if o.Kind == OLoop {
			if err := o.Loop.Encode(&buf); err != nil {
				panic("verif: Encode to bytes.Buffer failed: " + err.Error())
			}
			nl := new(s2.Loop)
			if err := nl.Decode(&buf); err != nil {
				panic("verif: Decode of a fresh encoding failed: " + err.Error())
			}
			o.Loop = nl
		} else {
			if err := o.Poly.Encode(&buf); err != nil {
				panic("verif: Encode to bytes.Buffer failed: " + err.Error())
			}
			np := new(s2.Polygon)
			if err := np.Decode(&buf); err != nil {
				panic("verif: Decode of a fresh encoding failed: " + err.Error())
			}
			o.Poly = np
		}
	}
	if ix := o.index(); ix != nil && !ix.IsFresh() {
		setMaxEdgesPerCell(ix, o.Desc.MaxEdges)
	}
}

// refObject reaches the symbolic state on a fresh object by mutations only (no query, no build).
// variant 0: the recorded mutation sequence; variant 1: inversions reduced mod 2 (only valid when
// every mutation is an Invert).
func refObject(d *ObjDesc, live, muts []int, variant int) *Obj {
	if d.Kind == OIndex {
		o := buildObj(d, 0)
		for _, si := range live {
			o.addShape(si)
		}
		return o
	}
	o := buildObj(d, 1)
	if variant == 1 {
		if len(muts)%2 == 1 {
			applyMut(o, MInvert)
		}
		return o
	}
	for _, m := range muts {
		applyMut(o, m)
	}
	return o
}

func usesObj2(op *Op) bool {
	switch op.Kind {
	case QRelContains, QRelIntersects:
		return true
	case QFindEdges, QDistance, QIsDistLess, QIsConsDist:
		return op.TK == TIndex
	}
	return false
}

func allInverts(m []int) bool {
	for _, x := range m {
		if x != MInvert {
			return false
		}
	}
	return true
}

// structureSensitive: answers that may legitimately depend on how the index happens to be cut
// into cells; compared only when subject and reference have identical cell lists.
func structureSensitive(op *Op) bool {
	switch op.Kind {
	case QContainsCell, QIntersectsCell, QRegionBound, QWalk, QLocate:
		return true
	case QFindEdges:
		return op.EQ.MaxError != 0 || op.EQ.MaxResults > 0
	case QDistance:
		return op.EQ.MaxError != 0
	}
	return false
}

// distancesOnly projects a FindEdges answer onto its distance list.
func distancesOnly(a Ans) Ans {
	if len(a) == 0 {
		return a
	}
	out := Ans{a[0]}
	for i := 1; i+2 < len(a)+0 && i < len(a); i += 3 {
		out = append(out, a[i])
	}
	return out
}

func runC13(rc *runCtx) *RunResult {
	res := &RunResult{}
	miscEncode = true
	g := gen.New()
	t := g.T
	descs := drawWorld(g, 3, 120)
	for i, d := range descs {
		rc.log("obj%d %s", i, describeObj(d))
	}
	drawKindMask(g.T)
	maxSteps := 25
	if rc.tier == "thorough" {
		maxSteps = 45
	}
	steps := drawHistory(g, descs, maxSteps)
	_ = t
	for i := range steps {
		rc.log("step%d %s", i, steps[i].String())
	}
	sig := uint64(1469598103934665603)
	for i := range steps {
		sig = (sig ^ uint64(steps[i].Kind*131+steps[i].Obj*7+steps[i].Q.Kind*1009+steps[i].Q.Reuse+5)) * 1099511628211
	}
	res.Sig = sig

	// ---- subject: one simulated task runs the whole history on long-lived objects ----------
	var world []*Obj
	qs := &Queries{}
	cur := -1
	task := func() {
		world = make([]*Obj, len(descs))
		for i, d := range descs {
			world[i] = buildObj(d, 0)
		}
		for i := range steps {
			cur = i
			core.OpBoundary()
			h := &steps[i]
			o := world[h.Obj]
			switch h.Kind {
			case HAdd:
				o.addShapeReusing(h.Shape, h.SameObj)
				for r := range qs.EQ {
					if qs.EQObj[r] == h.Obj {
						qs.EQ[r].Reset()
					}
				}
			case HBuild:
				if ix := o.index(); ix != nil {
					ix.Build()
				}
			case HReset:
				o.resetIndex()
				for r := range qs.EQ {
					if qs.EQObj[r] == h.Obj {
						qs.EQ[r].Reset()
					}
				}
			case HInvert:
				applyMut(o, MInvert)
			case HNormalize:
				applyMut(o, MNormalize)
			case HCodec:
				applyMut(o, MCodec)
			case HNewEQ:
				nq, eo := h.EQ.newQueryWithOptions(o.Index)
				qs.EQ = append(qs.EQ, nq)
				qs.EQO = append(qs.EQO, eo)
				qs.EQOpt = append(qs.EQOpt, h.EQ)
				qs.EQObj = append(qs.EQObj, h.Obj)
			case HSetOpts:
				h.EQ.apply(qs.EQO[h.Shape])
				qs.EQOpt[h.Shape] = h.EQ
			case HNewRegion:
				qs.Reg = append(qs.Reg, o.Index.Region())
			case HNewTarget:
				qs.Tgt = append(qs.Tgt, targetCalls(&h.Q, world, true))
			case HNewCEQ:
				qs.CEQ = append(qs.CEQ, s2.NewCrossingEdgeQuery(o.Index))
				qs.CEObj = append(qs.CEObj, h.Obj)
			case HNewCPQ:
				qs.CPQ = append(qs.CPQ, s2.NewContainsPointQuery(o.Index, h.Model))
				qs.CPObj = append(qs.CPObj, h.Obj)
				qs.CPMod = append(qs.CPMod, h.Model)
			case HQuery:
				h.ans = execQuery(world, &h.Q, qs)
				if o.Kind == OLoop {
					h.curVerts = append([]s2.Point(nil), o.Loop.Vertices()...)
				}
				if o.Kind == OPolygon && len(h.MutsA) > 0 {
					h.curLoops = nil
					for _, l := range o.Poly.Loops() {
						h.curLoops = append(h.curLoops, append([]s2.Point(nil), l.Vertices()...))
					}
					h.haveLoops = true
				}
				if structureSensitive(&h.Q) {
					if ix := o.index(); ix != nil && ix.IsFresh() {
						h.subjCells = cellList(ix)
						h.cellsOK = true
					}
				}
			}
			h.done = true
		}
	}
	// step bound per operation: 2*10^8 yields (a call on these small worlds needs 10^3..10^7)
	core.S.BeginRun(1, core.StratCfg{Force: core.StratSerial, EstSF: 1000, EstTotal: 4000000})
	verdict, panics := core.RunTasks([]func(){task}, func(x any) string { return fmt.Sprint(x) })
	s := &core.S
	rc.inc("histories", 1)
	rc.inc("steps", s.Steps)
	rc.inc("history_ops", int64(len(steps)))
	nq := 0
	kinds := map[int]bool{}
	for i := range steps {
		rc.inc("op_"+hNames[steps[i].Kind], 1)
		kinds[steps[i].Kind] = true
		if steps[i].Kind == HQuery {
			nq++
			if steps[i].Q.Reuse >= 0 {
				rc.inc("probe_query_reuse", 1)
			}
			if steps[i].Q.ReuseT > 0 {
				rc.inc("probe_target_reuse", 1)
			}
		}
	}
	res.Nontrivial = nq >= 1 && len(steps) >= 2 && len(kinds) >= 2
	probeHistory(rc, steps, descs)
	if verdict != core.VOK {
		res.Fatal = true
		if verdict == core.VOverflow {
			rc.inc("sim_overflow", 1)
			return res
		}
		where := "?"
		if cur >= 0 {
			where = fmt.Sprintf("step%d %s", cur, steps[cur].String())
		}
		res.Viol = &Violation{Kind: core.VerdictName(verdict), Site: siteName(s.VSite),
			Detail: fmt.Sprintf("%s never returns: %s at %s after %d simulated steps", where, core.VerdictName(verdict), siteName(s.VSite), s.Steps)}
		return res
	}
	if len(panics) > 0 {
		p := panics[0]
		where := "?"
		if cur >= 0 {
			where = fmt.Sprintf("step%d %s", cur, steps[cur].String())
		}
		res.Viol = &Violation{Kind: "panic", Site: panicSite(p.Stack),
			Detail: fmt.Sprintf("%s panicked: %s | %s", where, p.Value, shortStack(p.Stack, 8))}
		return res
	}

	// ---- reference: the same final state by the shortest sequence on fresh objects ---------
	optSem := map[int]int{} // per long-lived EdgeQuery: 0 unknown, 1 follows later option changes, 2 keeps creation options
	for i := range steps {
		h := &steps[i]
		if h.Kind != HQuery || !h.done {
			continue
		}
		q := h.Q // copy; the reference always uses a fresh query object and a fresh target
		q.Reuse = -1
		q.ReuseT = 0
		variants := 1
		od := descs[q.Obj]
		if od.Kind != OIndex && allInverts(h.MutsA) && len(h.MutsA) >= 2 {
			variants = 2
		}
		// computeRef answers q on fresh objects (variant v); status "" = ok, "skip", or a panic text
		centreKnown, centreIn := false, false
		computeRef := func(q Op, v int) (refAns Ans, refCells []uint64, refCellsOK bool, label string, status string) {
			status = func() (p string) {
				defer func() {
					if x := recover(); x != nil {
						p = fmt.Sprint(x)
					}
				}()
				rw := make([]*Obj, len(descs))
				switch {
				case v < variants:
					rw[q.Obj] = refObject(descs[q.Obj], h.LiveA, h.MutsA, v)
					label = [...]string{"fresh objects, mutations only", "fresh object, inversions mod 2"}[v]
				default:
					// a brand-new loop / polygon made from the subject's current vertices
					// (the bound after Invert is allowed to be looser than the bound of a new object)
					if len(h.MutsA) == 0 || q.Kind == QBounds {
						return "skip"
					}
					switch {
					case od.Kind == OLoop && h.curVerts != nil:
						nl := s2.LoopFromPoints(append([]s2.Point(nil), h.curVerts...))
						rw[q.Obj] = &Obj{Kind: OLoop, Loop: nl, Desc: od}
						setMaxEdgesPerCell(embeddedIndex(nl), od.MaxEdges)
						label = "new loop from the current vertices"
					case od.Kind == OPolygon && h.haveLoops:
						ls := make([]*s2.Loop, len(h.curLoops))
						for li, lv := range h.curLoops {
							ls[li] = s2.LoopFromPoints(append([]s2.Point(nil), lv...))
						}
						np := s2.PolygonFromLoops(ls)
						rw[q.Obj] = &Obj{Kind: OPolygon, Poly: np, Desc: od}
						setMaxEdgesPerCell(embeddedIndex(np), od.MaxEdges)
						label = "new polygon from the current loops"
					default:
						return "skip"
					}
				}
				if usesObj2(&q) && q.Obj2 != q.Obj {
					rw[q.Obj2] = refObject(descs[q.Obj2], h.LiveB, h.MutsB, 0)
				}
				refAns = execQuery(rw, &q, nil)
				if q.Kind == QContainsCell || q.Kind == QIntersectsCell {
					// ground truth for the one-sided check below: is the cell's centre inside?
					cq := q
					cq.Kind = QContainsPoint
					cq.P = q.Cell.Cell().Center()
					if ca := execQuery(rw, &cq, nil); len(ca) == 1 {
						centreKnown, centreIn = true, ca[0] == 1
					}
				}
				if structureSensitive(&q) {
					if ix := rw[q.Obj].index(); ix != nil && ix.IsFresh() {
						refCells = cellList(ix)
						refCellsOK = true
					}
				}
				return ""
			}()
			return
		}
		// compare applies the comparison rules; comparable=false means "nothing to compare here"
		compare := func(q Op, v int, refAns Ans, refCells []uint64, refCellsOK bool) (comparable, equal bool, subj, ref Ans) {
			subj, ref = h.ans, refAns
			if v != 0 {
				// a reference that did not go through the same mutation sequence may store the
				// polygon's loops in another order, and may have a tighter bound (the bound after
				// Invert is allowed to be loose): compare what is a function of the region only
				if q.Kind == QBounds || q.Kind == QMember {
					return false, true, subj, ref
				}
				subj, ref = orderIndependent(subj), orderIndependent(ref)
			}
			if structureSensitive(&q) {
				same := h.cellsOK && refCellsOK && eqU64(h.subjCells, refCells)
				if !same {
					rc.inc("structure_sensitive_not_compared", 1)
					if q.Kind == QFindEdges && q.EQ.MaxError == 0 {
						subj, ref = distancesOnly(subj), distancesOnly(ref)
					} else {
						return false, true, subj, ref
					}
				} else {
					rc.inc("structure_sensitive_compared", 1)
				}
			}
			return true, eqAns(subj, ref), subj, ref
		}
		for v := 0; v < variants+1; v++ {
			refAns, refCells, refCellsOK, label, status := computeRef(q, v)
			if status == "skip" {
				continue
			}
			if status != "" {
				res.Viol = &Violation{Kind: "panic", Site: "reference:" + qNames[q.Kind] + "/" + objKindNames[od.Kind],
					Detail: fmt.Sprintf("step%d %s: the shortest sequence on fresh objects (%s) itself panicked: %s", i, h.Q.String(), label, status)}
				return res
			}
			rc.inc("reference_checks", 1)
			if (q.Kind == QRelContains || q.Kind == QRelIntersects) && len(refAns) >= 1 && refAns[0] == 1 && q.Obj != q.Obj2 {
				rc.inc("probe_relation_true_between_distinct_objects", 1)
			}
			comparable, equal, subj, ref := compare(q, v, refAns, refCells, refCellsOK)
			if !comparable && centreKnown && len(h.ans) == 1 {
				// The cell predicates are conservative and may differ when the index is cut differently,
				// but only in one direction: "contains the cell" implies the cell's centre is inside,
				// "does not intersect the cell" implies it is not.
				rc.inc("cell_predicate_one_sided_checks", 1)
				if q.Kind == QContainsCell && h.ans[0] == 1 && !centreIn {
					res.Viol = &Violation{Kind: "history-dependent-answer", Site: "ContainsCell/" + objKindNames[od.Kind],
						Detail: fmt.Sprintf("step%d %s: after the history ContainsCell is true, but on %s the centre of that cell is not inside", i, h.Q.String(), label)}
					return res
				}
				if q.Kind == QIntersectsCell && h.ans[0] == 0 && centreIn {
					res.Viol = &Violation{Kind: "history-dependent-answer", Site: "IntersectsCell/" + objKindNames[od.Kind],
						Detail: fmt.Sprintf("step%d %s: after the history IntersectsCell is false, but on %s the centre of that cell is inside", i, h.Q.String(), label)}
					return res
				}
			}
			if h.HasAlt && v == 0 {
				// The caller changed the options object after the query was created. Whether a live
				// query follows such changes (it shares the object) or keeps the options it was
				// created with (it copied them) is not for this check to prescribe; but one query
				// object must behave one way in all of its methods.
				qa := q
				qa.EQ = h.AltEQ
				aAns, aCells, aOK, _, aStatus := computeRef(qa, 0)
				if aStatus != "" {
					continue
				}
				aComparable, aEqual, _, aref := compare(qa, 0, aAns, aCells, aOK)
				if !comparable || !aComparable {
					continue
				}
				rc.inc("probe_query_after_option_change", 1)
				sem := optSem[h.Q.Reuse]
				switch {
				case equal && aEqual:
				case equal:
					if sem == 2 {
						res.Viol = &Violation{Kind: "history-dependent-answer", Site: qNames[q.Kind] + "/options-changed",
							Detail: fmt.Sprintf("step%d %s: this call follows the options the caller set later, but an earlier call on the same query object used the options it was created with (answer %v)", i, h.Q.String(), trunc(subj))}
						return res
					}
					optSem[h.Q.Reuse] = 1
				case aEqual:
					if sem == 1 {
						res.Viol = &Violation{Kind: "history-dependent-answer", Site: qNames[q.Kind] + "/options-changed",
							Detail: fmt.Sprintf("step%d %s: this call ignores the options the caller set later (answer %v = fresh query with the creation options), but an earlier call on the same query object followed them (fresh query with the new options gives %v)", i, h.Q.String(), trunc(subj), trunc(ref))}
						return res
					}
					optSem[h.Q.Reuse] = 2
				default:
					res.Viol = &Violation{Kind: "history-dependent-answer", Site: qNames[q.Kind] + "/" + objKindNames[od.Kind],
						Detail: fmt.Sprintf("step%d %s: after the history the answer is %v; a fresh query with the current options gives %v, with the options at creation %v", i, h.Q.String(), trunc(subj), trunc(ref), trunc(aref))}
					return res
				}
				continue
			}
			if comparable && !equal {
				res.Viol = &Violation{Kind: "history-dependent-answer", Site: qNames[q.Kind] + "/" + objKindNames[od.Kind],
					Detail: fmt.Sprintf("step%d %s: after the history the answer is %v; %s give %v", i, h.Q.String(), trunc(subj), label, trunc(ref))}
				return res
			}
		}
	}
	return res
}

// probeHistory counts the situations DESIGN.md §3 says must be reached.
func probeHistory(rc *runCtx, steps []HStep, descs []*ObjDesc) {
	built := map[int]bool{}
	queried := map[int]bool{}
	inverted := map[int]int{}
	lastEQ := map[int]int{} // reuse id -> last query kind
	lastShape := map[[2]int][2]int{}
	sameObjAdd, everAdded := map[[2]int]bool{}, map[[2]int]bool{}
	for i := range steps {
		h := &steps[i]
		if h.Kind == HQuery {
			rc.inc("q_"+qNames[h.Q.Kind], 1)
		}
		switch h.Kind {
		case HBuild:
			built[h.Obj] = true
		case HAdd:
			sameObjAdd[[2]int{h.Obj, h.Shape}] = h.SameObj && everAdded[[2]int{h.Obj, h.Shape}]
			everAdded[[2]int{h.Obj, h.Shape}] = true
			if built[h.Obj] {
				rc.inc("probe_add_after_build", 1)
			}
		case HReset:
			if built[h.Obj] {
				rc.inc("probe_reset_after_build", 1)
			}
		case HInvert:
			if queried[h.Obj] {
				rc.inc("probe_invert_after_query", 1)
			}
			inverted[h.Obj]++
			if inverted[h.Obj] == 2 {
				rc.inc("probe_invert_twice", 1)
			}
			if descs[h.Obj].Shapes[0].Special != gen.SpNormal {
				rc.inc("probe_invert_empty_or_full", 1)
			}
		case HCodec:
			rc.inc("probe_decode_then_continue", 1)
		case HQuery:
			queried[h.Obj] = true
			if descs[h.Obj].Kind == OIndex {
				built[h.Obj] = true
			}
			if h.Q.Reuse >= 0 && h.Q.Kind >= QFindEdges && h.Q.Kind <= QIsConsDist {
				if prev, ok := lastEQ[h.Q.Reuse]; ok && h.Q.Kind == QFindEdges && prev != QFindEdges {
					rc.inc("probe_findedges_after_"+qNames[prev], 1)
				}
				lastEQ[h.Q.Reuse] = h.Q.Kind
			}
			if h.Q.Reuse >= 0 && (h.Q.Kind == QCrossings || h.Q.Kind == QShapeContains) && h.Q.ShapeID < len(h.LiveA) {
				key := [2]int{h.Q.Kind, h.Q.Reuse}
				cur := [2]int{h.LiveA[h.Q.ShapeID], h.Q.ShapeID}
				if prev, ok := lastShape[key]; ok && prev[0] == cur[0] && prev[1] != cur[1] {
					rc.inc("probe_long_lived_query_same_shape_new_id", 1)
					if sameObjAdd[[2]int{h.Obj, cur[0]}] {
						rc.inc("probe_long_lived_query_same_shape_object_new_id", 1)
						ne := 0
						for _, l := range descs[h.Obj].Shapes[cur[0]].Loops {
							ne += len(l)
						}
						if ne > 27 {
							rc.inc("probe_long_lived_query_same_big_shape_object_new_id", 1)
							if h.Q.Kind == QCrossings {
								rc.inc("probe_long_lived_crossing_query_same_big_shape_object_new_id", 1)
								if len(h.ans) > 0 {
									rc.inc("probe_long_lived_crossing_query_same_big_shape_object_new_id_with_crossings", 1)
								}
							}
						}
					}
				}
				lastShape[key] = cur
			}
		}
	}
}
