// worker runs simulated executions of one engine against the s2 package built from /repo's
// current tree (with the verification overlay). One JSON line per run on stdout; a "run <idx>"
// marker on stderr before each run so the parent can attribute race reports and crashes.
package main

import (
	"bufio"
	"encoding/json"
	"flag"
	"fmt"
	"os"
	"regexp"
	"runtime"
	"strings"
	"sync"
	"syscall"
	"time"

	"github.com/golang/geo/s2"

	"verifsim/core"
)

// Violation is a property violation found in a run.
type Violation struct {
	Kind   string `json:"kind"`
	Site   string `json:"site"`
	Detail string `json:"detail"`
}

// RunResult is one line of worker output.
type RunResult struct {
	T          string           `json:"t"`
	Engine     string           `json:"engine"`
	Idx        uint64           `json:"idx"`
	Seed       uint64           `json:"seed"`
	Viol       *Violation       `json:"viol,omitempty"`
	Stats      map[string]int64 `json:"stats,omitempty"`
	Sig        uint64           `json:"sig"`        // signature of the case (interleaving / input / history)
	Nontrivial bool             `json:"nontrivial"` // by the engine's stated rule
	Sample     string           `json:"sample,omitempty"`
	Tape       []uint32         `json:"tape,omitempty"`
	Trace      []string         `json:"trace,omitempty"`
	Fatal      bool             `json:"fatal,omitempty"` // the process must exit after this run
	WallUS     int64            `json:"wall_us"`
}

type siteInfo struct {
	Name  string `json:"name"`
	Class int    `json:"class"`
	Loop  bool   `json:"loop"`
}

var sites []siteInfo

func siteName(i int) string {
	if i >= 0 && i < len(sites) {
		return sites[i].Name
	}
	return fmt.Sprintf("site%d", i)
}

type engine struct {
	name string
	tag  uint64
	run  func(rc *runCtx) *RunResult
}

type runCtx struct {
	tier     string
	emitAll  bool
	replay   bool
	stats    map[string]int64
	trace    []string
	maxTrace int
}

func (rc *runCtx) inc(k string, n int64) { rc.stats[k] += n }
func (rc *runCtx) log(format string, a ...any) {
	if len(rc.trace) < rc.maxTrace {
		rc.trace = append(rc.trace, fmt.Sprintf(format, a...))
	}
}

var engines = map[string]*engine{}

// state of the run in progress, for emitFatal (called from a watchdog goroutine)
var (
	curIdx    uint64
	curSeed   uint64
	curEngine string
	curStart  time.Time
	outMu     sync.Mutex
	outW      *bufio.Writer
)

// emitFatal reports the run in progress with res as its outcome and ends the process. Used when
// the run itself can never return (a decode that does not terminate).
func emitFatal(rc *runCtx, res *RunResult) {
	outMu.Lock()
	res.T = "run"
	res.Engine = curEngine
	res.Idx = curIdx
	res.Seed = curSeed
	res.Stats = map[string]int64{}
	res.WallUS = time.Since(curStart).Microseconds()
	res.Tape = core.T.Snapshot()
	res.Trace = append([]string(nil), rc.trace...)
	res.Fatal = true
	json.NewEncoder(outW).Encode(res)
	outW.Flush()
	os.Exit(3)
}

func register(e *engine) { engines[e.name] = e }

// announce writes the run marker with a raw write (no buffering, no sync).
func announce(idx uint64) {
	s := fmt.Sprintf("\nVERIF-RUN %d\n", idx)
	syscall.Write(2, []byte(s))
}

var frameRe = regexp.MustCompile(`(?m)^(github\.com/golang/geo/[^\s(]+(?:\([^)]*\))?[^\s(]*)\(`)

// panicSite extracts the innermost golang/geo frame from a stack dump.
func panicSite(stack string) string {
	// skip up to the panic frame
	if i := strings.Index(stack, "\npanic("); i >= 0 {
		stack = stack[i+1:]
	}
	for _, ln := range strings.Split(stack, "\n") {
		if strings.HasPrefix(ln, "github.com/golang/geo/") {
			if j := strings.LastIndex(ln, "("); j > 0 {
				return strings.TrimPrefix(ln[:j], "github.com/golang/geo/")
			}
		}
	}
	return "unknown"
}

func shortStack(stack string, n int) string {
	lines := strings.Split(stack, "\n")
	var out []string
	for _, ln := range lines {
		if strings.HasPrefix(ln, "github.com/golang/geo/") || strings.Contains(ln, "/s2/") || strings.HasPrefix(ln, "panic(") {
			out = append(out, strings.TrimSpace(ln))
		}
		if len(out) >= n {
			break
		}
	}
	return strings.Join(out, " | ")
}

func schedTrace(rc *runCtx) {
	s := &core.S
	for i := 0; i+2 < s.NTrace; i += 3 {
		k, task, site := int(s.Trace[i]), int(s.Trace[i+1]), int(s.Trace[i+2])
		switch k {
		case core.EvPreempt, core.EvBlock, core.EvSpin:
			rc.log("  sched: %s task%d at %s", core.EvName(k), task, siteName(site))
		case core.EvVerdict:
			rc.log("  sched: verdict %s task%d", core.VerdictName(site), task)
		default:
			rc.log("  sched: %s task%d", core.EvName(k), task)
		}
	}
}

func main() {
	engName := flag.String("engine", "", "engine name")
	seed := flag.Uint64("seed", 1, "batch seed (VERIF_SEED)")
	start := flag.Uint64("start", 0, "first run index")
	runs := flag.Uint64("runs", 1, "number of runs")
	tier := flag.String("tier", "quick", "quick|thorough")
	sitesPath := flag.String("sites", "", "sites.json from the instrumenter")
	replayPath := flag.String("replay", "", "replay file (JSON with a tape)")
	emitAll := flag.Bool("emit", false, "emit tape and trace for every run")
	deadline := flag.Duration("deadline", 0, "stop starting new runs after this wall time")
	digest := flag.Bool("digest", false, "print one DIGEST line per run instead of JSON (determinism self-test)")
	cold := flag.Bool("cold", false, "c14: the first run of the process is a cold run (burst before anything else touches the library)")
	emitFirst := flag.Uint64("emitfirst", 0, "emit tape and trace for the first N runs (samples for the evidence file)")
	flag.Parse()

	coldFirst = *cold
	eng := engines[*engName]
	if eng == nil {
		fmt.Fprintln(os.Stderr, "unknown engine", *engName)
		os.Exit(4)
	}
	if *sitesPath != "" {
		b, err := os.ReadFile(*sitesPath)
		if err != nil {
			fmt.Fprintln(os.Stderr, err)
			os.Exit(4)
		}
		if err := json.Unmarshal(b, &sites); err != nil {
			fmt.Fprintln(os.Stderr, err)
			os.Exit(4)
		}
		cl := make([]uint8, len(sites))
		lp := make([]bool, len(sites))
		for i, s := range sites {
			cl[i] = uint8(s.Class)
			lp[i] = s.Loop
		}
		core.SetSites(cl, lp)
	}
	s2.VerifYieldFn = core.Yield
	s2.VerifBeforeLockFn = core.BeforeLock
	s2.VerifCondFn = core.CondOp
	s2.VerifBeforeUnlockFn = core.BeforeUnlock

	out := bufio.NewWriterSize(os.Stdout, 1<<16)
	outW = out
	defer out.Flush()
	enc := json.NewEncoder(out)

	var replayTape []uint32
	if *replayPath != "" {
		b, err := os.ReadFile(*replayPath)
		if err != nil {
			fmt.Fprintln(os.Stderr, err)
			os.Exit(4)
		}
		var rf struct {
			Tape []uint32 `json:"tape"`
		}
		if err := json.Unmarshal(b, &rf); err != nil {
			fmt.Fprintln(os.Stderr, err)
			os.Exit(4)
		}
		replayTape = rf.Tape
		*runs = 1
	}
	t0 := time.Now()
	for r := uint64(0); r < *runs; r++ {
		if *deadline > 0 && time.Since(t0) > *deadline {
			break
		}
		idx := *start + r
		rs := core.Mix(*seed, eng.tag, idx)
		rc := &runCtx{tier: *tier, emitAll: *emitAll || *replayPath != "" || r < *emitFirst, replay: *replayPath != "", stats: map[string]int64{}, maxTrace: 400}
		announce(idx)
		core.ResetMainLocks()
		if *replayPath != "" {
			core.T.StartReplay(replayTape)
		} else {
			core.T.StartRecord(rs)
		}
		w0 := time.Now()
		curIdx, curSeed, curEngine, curStart = idx, *seed, eng.name, w0
		res := eng.run(rc)
		outMu.Lock()
		res.T = "run"
		res.Engine = eng.name
		res.Idx = idx
		res.Seed = *seed
		res.Stats = rc.stats
		res.WallUS = time.Since(w0).Microseconds()
		if core.T.Overflow {
			// infrastructure limit, not a verdict about the code
			res.Viol = nil
			rc.stats["tape_overflow"]++
		}
		if res.Viol != nil || rc.emitAll {
			res.Tape = core.T.Snapshot()
			res.Trace = rc.trace
		}
		if *digest {
			v := ""
			if res.Viol != nil {
				v = res.Viol.Kind + "@" + res.Viol.Site
			}
			fmt.Fprintf(out, "DIGEST %d sig=%x steps=%d switches=%d tape=%d viol=%s\n", idx, res.Sig, rc.stats["steps"], rc.stats["switches"], core.T.Pos, v)
			if os.Getenv("VERIF_SITE_HIST") != "" {
				for i := range core.S.SiteHist {
					if n := core.S.SiteHist[i]; n != 0 {
						fmt.Fprintf(out, "SITE %d %d\n", i, n)
					}
				}
			}
			if res.Fatal {
				out.Flush()
				os.Exit(3)
			}
			outMu.Unlock()
			continue
		}
		if err := enc.Encode(res); err != nil {
			os.Exit(4)
		}
		if res.Viol != nil || res.Fatal {
			out.Flush()
		}
		if res.Fatal {
			out.Flush()
			os.Exit(3)
		}
		outMu.Unlock()
	}
	out.Flush()
	_ = runtime.NumGoroutine
}
