module verifsim

go 1.21.0

require github.com/golang/geo v0.0.0

replace github.com/golang/geo => /repo
