package main

import (
	"fmt"
	"os"

	"verifsim/instr"
)

func main() {
	r, err := instr.Instrument(os.Args[1], os.Args[2], os.Args[1])
	if err != nil {
		fmt.Fprintln(os.Stderr, err)
		os.Exit(2)
	}
	fmt.Printf("S=%d F=%d O=%d lock=%d loop=%d files=%d\n", r.NS, r.NF, r.NO, r.NLock, r.NLoop, r.Files)
}
