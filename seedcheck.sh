#!/bin/bash
# usage: seedcheck.sh <patch.diff> <property-id>... — apply a seeded change to /repo, run the quick checks, undo it.
# Prints one line per check: <id> exit=<code> and the first VIOLATION lines. Never leaves /repo modified.
set -u
patch="$1"; shift
cd /repo || exit 2
if [ -n "$(git status --porcelain)" ]; then echo "repo not clean"; exit 2; fi
if ! git apply --check "$patch" 2>/dev/null; then echo "patch does not apply: $patch"; exit 2; fi
git apply "$patch"
trap 'git -C /repo checkout -- . ; git -C /repo clean -fdq' EXIT
export GOFLAGS=-mod=mod GOPROXY=off GOSUMDB=off GOTOOLCHAIN=local
if ! go build ./... 2>/tmp/seed_build.log; then echo "does not build"; head -5 /tmp/seed_build.log; exit 2; fi
cd /verif
for id in "$@"; do
  out=$(VERIF_RUNS_PER_WORKER="${SEED_RUNS:-}" ./check "$id" "${SEED_TIER:-quick}" 2>&1); code=$?
  echo "== $id exit=$code $(echo "$out" | tail -1)"
  echo "$out" | grep -A1 "^VIOLATION" | grep "kind=" | cut -c1-260 | head -4
done
