#!/usr/bin/env python3
# Regenerates MANIFEST.json (kept as a script so that the claimed set and the N/A reasons stay in one place).
import json, subprocess
hooks_note = ("No hook is committed in /repo. Every check instruments a copy of the current /repo/s2/*.go (go/ast, same-line splices) "
              "and builds with `go build -overlay`; the overlay adds zz_verif_hooks.go to package s2. With no overlay there is no hook at all.")
claimed = {
 "C14": dict(level="exploration", design="§2", technique="deterministic simulation: seeded one-runner scheduler over real goroutines + Go race detector + serial-clone oracle + lock-model deadlock verdicts",
   text="Seeded search over schedules of 2-6 (thorough: 2-8) real goroutines querying shared, overlapping Loop/Polygon/ShapeIndex objects (index unbuilt, built, or stale; index shapes may be the very objects queried directly, and member loops of a shared polygon / shapes of a shared index are questioned directly too; a second batch runs one burst per fresh, cold process) on a replayable one-runner scheduler whose hand-off is invisible to the race detector; every run is checked for data races, serial-equivalent answers, deadlock, bounded progress and panics. Exploration, not proof: a clean batch is evidence.",
   note="Trusted: the Go race detector; the instrumenter's yield placement; sequentially consistent interleavings only (preemption at sync statements and s2 function entries). The lock model covers sync.Mutex/RWMutex/Once and sync.Cond; a dropped-value channel receive and a plain-value send are polled; sources that park goroutines in any other way (select without default, receive with a value) make a stalled worker an infrastructure failure (exit 2), not a verdict. The serial oracle is the library itself on a clone."),
 "C13": dict(level="exploration", design="§3", technique="deterministic simulation: seeded operation histories on long-lived objects vs fresh-object reference; lock model decides self-deadlock",
   text="Seeded search over operation histories (add/build/reset/invert/normalize/encode-decode/query; reuse of the three query object types, of distance targets and of regions; option changes on live queries; per-run workload mix) run as a simulated task; each answer is compared with the same query on fresh objects reaching the same state by the shortest sequence (three reference variants; one-sided oracle for the conservative cell predicates); hangs are decided by the lock model and a step bound, panics are caught.",
   note="Trusted: the reference is the same library on fresh objects, so only history dependence is decided. Structure-dependent conservative predicates are compared only on identical cell lists."),
 "C15": dict(level="fault_enumeration", design="§4", technique="deterministic simulation of the storage medium: complete single-fault enumeration on stored bytes and read stream + seeded fault sequences, in address-space-capped worker processes",
   text="For every corpus encoding every truncation, bit flip, byte overwrite, count-field forgery and read error at every offset is applied under three reader shapes (ByteReader, 1 byte per Read, file-like seekable), plus torn reads behind forged windows, whole-stream stride-8 overwrites, seeded multi-fault sequences, splices, loop-level re-assembly, hostile-geometry streams, random bytes, cross-type decoding and decoding into used receivers; Decode must return, must not panic, abort or stall, and a returned value must survive containment, bounds, edge, chain, cell and re-encode calls.",
   note="Complete per corpus entry for single faults; the corpus itself is sampled. 'Rejected before allocation' is observed through the 8 GiB address-space cap of the workers (an out-of-memory abort counts only if the run reproduces it alone). Wall-clock stall limit 90 s; any abort, stall or wall-clock hang is counted only if the run shows it again when executed alone in a fresh process (load and memory pressure are not the library's doing)."),
 "C09": dict(level="fault_enumeration", design="§5", technique="deterministic simulation of the stream: every failing write call and every crash offset enumerated per value; benign reader behaviours enumerated/drawn; seeded value generation (plain workload generation for the value space)",
   text="Encode->simulated medium->Decode: under benign chunking/EOF/zero-read/ByteReader behaviour the decoded value must be bit-identical, answer identically and re-encode identically; for every write call and every byte offset a failing write / crash must never be acknowledged as success. The value space (the property's own quantifier) is only sampled by a steered generator.",
   note="The stream clause is decided by enumeration; the value quantifier is sampled. Bit-identity is judged through the public API plus reflection on depth/hasHoles."),
 "C03": dict(level="exploration", design="§5b", technique="seeded call histories on one EdgeCrosser vs a stateless reference model and an exact-arithmetic model (history clause only; partial claim)",
   text="PARTIAL: decides only that the incremental crosser answers like the stateless test in any call order (chained, restarted, mixed, both constructors); exactness and symmetry are checked on the visited quadruples only. There is no fault or schedule dimension for this type.",
   note="The universal exactness clause and the vertex-crossing rule are pure functions of four points and are not claimed."),
}
na = {
 "C01": "Pure integer/float arithmetic on cell ids and points; lookup tables are filled once in package init before any caller exists; no I/O, shared mutable state, clock or fault surface for a scheduler or fault injector to vary.",
 "C02": "Pure function of at most five points; the staged triage/stable/exact evaluation is deterministic control flow with no schedule, stream or fault in it.",
 "C04": "Containment parity and tiling are pure functions of (shape, point); the one state-dependent clause (same answer before/after the index exists, and under concurrent first use) is exercised as history/schedule dependence by C13/C14, which is all a simulator can say about it.",
 "C05": "The coverer allocates its working state per call; the result is a pure function of (region, options).",
 "C06": "Index contents are a deterministic function of the shape set and queries are pure given the index; how the index came to be (batches, resets) is C13, who built it is C14.",
 "C07": "Pure function of two loops/polygons; the lazily built indexes underneath are covered as state by C13/C14. (No check here decides it; one input-universal defect met along the way, an inverted test in the loop relation code, was repaired in /repo: DESIGN.md 8.1, R6.)",
 "C08": "Pure function of (index, target, options); query-object reuse and option leakage are C13, concurrent use is C14. (No check here decides it. Five input-universal defects met along the way - reported as side remarks by seeding sub-agents and confirmed with a throw-away differential test - were repaired in /repo all the same: DESIGN.md 8.1, R1-R5.)",
 "C10": "Pure numeric function of region geometry.",
 "C11": "Pure function of cell-id multisets; CellIndex is built once then read through caller-owned iterators.",
 "C12": "Pure numeric function of (cell, target).",
 "C16": "Pure numeric function of four points.",
 "C17": "Pure numeric function of points/edges/polylines.",
 "C18": "Pure numeric function of loop/polygon vertices.",
 "C19": "Pure function of interval/rectangle/cap values.",
 "C20": "Pure function of (geometry, tolerance, projection/snap parameters).",
}
# properties not yet claimed but planned: listed N/A until their check exists, so the manifest is always truthful
pending = {}
import os
have = set(claimed)
for k in list(pending):
    if os.path.exists(f"/verif/.claimed_{k}"):
        pass
checks=[]
for pid,c in sorted(claimed.items()):
    checks.append(dict(property_id=pid, quick_cmd=f"./check {pid} quick", thorough_cmd=f"./check {pid} thorough",
        evidence_file=f"/verif/evidence/{pid}.json", replay_cmd_template="./check replay {path}", engine="sim",
        level_claimed=dict(category=c["level"], text=c["text"], design_ref=c["design"]), level_note=c["note"], technique=c["technique"]))
nal=[dict(property_id=k, reason=v) for k,v in sorted({**na, **{k:v for k,v in pending.items() if k not in claimed}}.items())]
m=dict(version=1,
  setup_cmd="cd /verif/sim && GOFLAGS=-mod=mod GOPROXY=off GOSUMDB=off GOTOOLCHAIN=local go build -o /verif/bin/verif ./driver && GOFLAGS=-mod=mod GOPROXY=off GOSUMDB=off GOTOOLCHAIN=local go build -race -o /dev/null ./core",
  hooks=dict(guard="none committed: overlay-only instrumentation (go build -overlay), see notes", enable="./check <id> instruments /repo/s2 into a scratch dir and builds workers with `go build [-race] -overlay <scratch>/ov/overlay.json ./worker`",
             baseline_off_cmd="cd /repo && GOFLAGS=-mod=mod GOPROXY=off GOSUMDB=off go test -vet=off -count=1 -timeout 25m ./...", source_commits=[], add_only=True),
  engines=[dict(name="sim", path="/verif/sim", serves_properties=sorted(claimed), kind_free_text="deterministic simulator: choice tape, one-runner scheduler with lock model and race-detector-invisible hand-off, simulated stream medium with fault plans, parent driver with fresh-process minimiser")],
  checks=checks, not_applicable=nal,
  notes=hooks_note+" fix: commits in /repo repair genuine defects found by these checks (see /verif/known_findings.txt and DESIGN.md §8).")
json.dump(m, open("/verif/MANIFEST.json","w"), indent=1)
print("claimed:", sorted(claimed), "n/a:", len(nal))
